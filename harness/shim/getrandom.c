/* LD_PRELOAD shim: deterministic getrandom()/getentropy() so that std's RandomState
   (HashMap seeds) is a function of the environment variable VCHECK_HASH_SEED. */
#define _GNU_SOURCE
#include <stddef.h>
#include <stdlib.h>
#include <stdint.h>
#include <sys/types.h>

static uint64_t state = 0;
static int inited = 0;

static uint64_t next(void) {
    /* splitmix64 */
    uint64_t z = (state += 0x9E3779B97F4A7C15ULL);
    z = (z ^ (z >> 30)) * 0xBF58476D1CE4E5B9ULL;
    z = (z ^ (z >> 27)) * 0x94D049BB133111EBULL;
    return z ^ (z >> 31);
}

static void init(void) {
    if (!inited) {
        const char *s = getenv("VCHECK_HASH_SEED");
        state = s ? strtoull(s, NULL, 10) : 0;
        state = state * 0x2545F4914F6CDD1DULL + 1;
        inited = 1;
    }
}

ssize_t getrandom(void *buf, size_t buflen, unsigned int flags) {
    (void)flags;
    init();
    unsigned char *p = buf;
    for (size_t i = 0; i < buflen; i++) {
        if ((i & 7) == 0) { uint64_t v = next(); for (int k = 0; k < 8 && i + k < buflen; k++) p[i + k] = (unsigned char)(v >> (8 * k)); }
    }
    return (ssize_t)buflen;
}

int getentropy(void *buf, size_t buflen) {
    getrandom(buf, buflen, 0);
    return 0;
}
