//! Independent 6502 emulator: all documented opcodes, binary-mode arithmetic, exact cycle
//! counts (base + page-cross + branch penalties), access logging and split-port RAM model.

#[derive(Debug, Clone, Copy, PartialEq, Eq, Hash)]
pub enum Mode {
    Imp,
    Acc,
    Imm,
    Zp,
    ZpX,
    ZpY,
    Abs,
    AbsX,
    AbsY,
    Ind,
    IndX,
    IndY,
    Rel,
}

impl Mode {
    pub fn len(self) -> u32 {
        match self {
            Mode::Imp | Mode::Acc => 1,
            Mode::Imm | Mode::Zp | Mode::ZpX | Mode::ZpY | Mode::IndX | Mode::IndY | Mode::Rel => 2,
            Mode::Abs | Mode::AbsX | Mode::AbsY | Mode::Ind => 3,
        }
    }
}

#[derive(Debug, Clone, Copy)]
pub struct OpInfo {
    pub code: u8,
    pub mnem: &'static str,
    pub mode: Mode,
    pub cycles: u8,
    pub pagex: bool,
}

macro_rules! op {
    ($c:expr, $m:expr, $mode:ident, $cy:expr) => {
        OpInfo { code: $c, mnem: $m, mode: Mode::$mode, cycles: $cy, pagex: false }
    };
    ($c:expr, $m:expr, $mode:ident, $cy:expr, p) => {
        OpInfo { code: $c, mnem: $m, mode: Mode::$mode, cycles: $cy, pagex: true }
    };
}

pub static OPS: &[OpInfo] = &[
    op!(0x69, "ADC", Imm, 2), op!(0x65, "ADC", Zp, 3), op!(0x75, "ADC", ZpX, 4), op!(0x6D, "ADC", Abs, 4),
    op!(0x7D, "ADC", AbsX, 4, p), op!(0x79, "ADC", AbsY, 4, p), op!(0x61, "ADC", IndX, 6), op!(0x71, "ADC", IndY, 5, p),
    op!(0x29, "AND", Imm, 2), op!(0x25, "AND", Zp, 3), op!(0x35, "AND", ZpX, 4), op!(0x2D, "AND", Abs, 4),
    op!(0x3D, "AND", AbsX, 4, p), op!(0x39, "AND", AbsY, 4, p), op!(0x21, "AND", IndX, 6), op!(0x31, "AND", IndY, 5, p),
    op!(0x0A, "ASL", Acc, 2), op!(0x06, "ASL", Zp, 5), op!(0x16, "ASL", ZpX, 6), op!(0x0E, "ASL", Abs, 6), op!(0x1E, "ASL", AbsX, 7),
    op!(0x90, "BCC", Rel, 2), op!(0xB0, "BCS", Rel, 2), op!(0xF0, "BEQ", Rel, 2), op!(0x30, "BMI", Rel, 2),
    op!(0xD0, "BNE", Rel, 2), op!(0x10, "BPL", Rel, 2), op!(0x50, "BVC", Rel, 2), op!(0x70, "BVS", Rel, 2),
    op!(0x24, "BIT", Zp, 3), op!(0x2C, "BIT", Abs, 4),
    op!(0x00, "BRK", Imp, 7),
    op!(0x18, "CLC", Imp, 2), op!(0xD8, "CLD", Imp, 2), op!(0x58, "CLI", Imp, 2), op!(0xB8, "CLV", Imp, 2),
    op!(0xC9, "CMP", Imm, 2), op!(0xC5, "CMP", Zp, 3), op!(0xD5, "CMP", ZpX, 4), op!(0xCD, "CMP", Abs, 4),
    op!(0xDD, "CMP", AbsX, 4, p), op!(0xD9, "CMP", AbsY, 4, p), op!(0xC1, "CMP", IndX, 6), op!(0xD1, "CMP", IndY, 5, p),
    op!(0xE0, "CPX", Imm, 2), op!(0xE4, "CPX", Zp, 3), op!(0xEC, "CPX", Abs, 4),
    op!(0xC0, "CPY", Imm, 2), op!(0xC4, "CPY", Zp, 3), op!(0xCC, "CPY", Abs, 4),
    op!(0xC6, "DEC", Zp, 5), op!(0xD6, "DEC", ZpX, 6), op!(0xCE, "DEC", Abs, 6), op!(0xDE, "DEC", AbsX, 7),
    op!(0xCA, "DEX", Imp, 2), op!(0x88, "DEY", Imp, 2),
    op!(0x49, "EOR", Imm, 2), op!(0x45, "EOR", Zp, 3), op!(0x55, "EOR", ZpX, 4), op!(0x4D, "EOR", Abs, 4),
    op!(0x5D, "EOR", AbsX, 4, p), op!(0x59, "EOR", AbsY, 4, p), op!(0x41, "EOR", IndX, 6), op!(0x51, "EOR", IndY, 5, p),
    op!(0xE6, "INC", Zp, 5), op!(0xF6, "INC", ZpX, 6), op!(0xEE, "INC", Abs, 6), op!(0xFE, "INC", AbsX, 7),
    op!(0xE8, "INX", Imp, 2), op!(0xC8, "INY", Imp, 2),
    op!(0x4C, "JMP", Abs, 3), op!(0x6C, "JMP", Ind, 5),
    op!(0x20, "JSR", Abs, 6),
    op!(0xA9, "LDA", Imm, 2), op!(0xA5, "LDA", Zp, 3), op!(0xB5, "LDA", ZpX, 4), op!(0xAD, "LDA", Abs, 4),
    op!(0xBD, "LDA", AbsX, 4, p), op!(0xB9, "LDA", AbsY, 4, p), op!(0xA1, "LDA", IndX, 6), op!(0xB1, "LDA", IndY, 5, p),
    op!(0xA2, "LDX", Imm, 2), op!(0xA6, "LDX", Zp, 3), op!(0xB6, "LDX", ZpY, 4), op!(0xAE, "LDX", Abs, 4), op!(0xBE, "LDX", AbsY, 4, p),
    op!(0xA0, "LDY", Imm, 2), op!(0xA4, "LDY", Zp, 3), op!(0xB4, "LDY", ZpX, 4), op!(0xAC, "LDY", Abs, 4), op!(0xBC, "LDY", AbsX, 4, p),
    op!(0x4A, "LSR", Acc, 2), op!(0x46, "LSR", Zp, 5), op!(0x56, "LSR", ZpX, 6), op!(0x4E, "LSR", Abs, 6), op!(0x5E, "LSR", AbsX, 7),
    op!(0xEA, "NOP", Imp, 2),
    op!(0x09, "ORA", Imm, 2), op!(0x05, "ORA", Zp, 3), op!(0x15, "ORA", ZpX, 4), op!(0x0D, "ORA", Abs, 4),
    op!(0x1D, "ORA", AbsX, 4, p), op!(0x19, "ORA", AbsY, 4, p), op!(0x01, "ORA", IndX, 6), op!(0x11, "ORA", IndY, 5, p),
    op!(0x48, "PHA", Imp, 3), op!(0x08, "PHP", Imp, 3), op!(0x68, "PLA", Imp, 4), op!(0x28, "PLP", Imp, 4),
    op!(0x2A, "ROL", Acc, 2), op!(0x26, "ROL", Zp, 5), op!(0x36, "ROL", ZpX, 6), op!(0x2E, "ROL", Abs, 6), op!(0x3E, "ROL", AbsX, 7),
    op!(0x6A, "ROR", Acc, 2), op!(0x66, "ROR", Zp, 5), op!(0x76, "ROR", ZpX, 6), op!(0x6E, "ROR", Abs, 6), op!(0x7E, "ROR", AbsX, 7),
    op!(0x40, "RTI", Imp, 6), op!(0x60, "RTS", Imp, 6),
    op!(0xE9, "SBC", Imm, 2), op!(0xE5, "SBC", Zp, 3), op!(0xF5, "SBC", ZpX, 4), op!(0xED, "SBC", Abs, 4),
    op!(0xFD, "SBC", AbsX, 4, p), op!(0xF9, "SBC", AbsY, 4, p), op!(0xE1, "SBC", IndX, 6), op!(0xF1, "SBC", IndY, 5, p),
    op!(0x38, "SEC", Imp, 2), op!(0xF8, "SED", Imp, 2), op!(0x78, "SEI", Imp, 2),
    op!(0x85, "STA", Zp, 3), op!(0x95, "STA", ZpX, 4), op!(0x8D, "STA", Abs, 4), op!(0x9D, "STA", AbsX, 5),
    op!(0x99, "STA", AbsY, 5), op!(0x81, "STA", IndX, 6), op!(0x91, "STA", IndY, 6),
    op!(0x86, "STX", Zp, 3), op!(0x96, "STX", ZpY, 4), op!(0x8E, "STX", Abs, 4),
    op!(0x84, "STY", Zp, 3), op!(0x94, "STY", ZpX, 4), op!(0x8C, "STY", Abs, 4),
    op!(0xAA, "TAX", Imp, 2), op!(0xA8, "TAY", Imp, 2), op!(0xBA, "TSX", Imp, 2), op!(0x8A, "TXA", Imp, 2),
    op!(0x9A, "TXS", Imp, 2), op!(0x98, "TYA", Imp, 2),
];

pub fn lookup(mnem: &str, mode: Mode) -> Option<&'static OpInfo> {
    OPS.iter().find(|o| o.mnem == mnem && o.mode == mode)
}

pub fn has_mnemonic(mnem: &str) -> bool {
    OPS.iter().any(|o| o.mnem == mnem)
}

pub const A_WPORT: u8 = 1; // write-only port of split RAM
pub const A_RPORT: u8 = 2; // read-only port of split RAM
pub const A_LOG: u8 = 4; // "hardware register": every access is logged
pub const A_ROM: u8 = 8; // writes are faults
pub const A_XLOG: u8 = 16; // log execution of the instruction at this address

#[derive(Debug, Clone, Copy, PartialEq, Eq, Hash)]
pub enum AccKind {
    Read,
    Write,
    Exec,
}

#[derive(Debug, Clone, Copy, PartialEq, Eq, Hash)]
pub struct Access {
    pub kind: AccKind,
    pub addr: u16,
    pub val: u8,
    pub cycle: u64,
}

#[derive(Debug, Clone, PartialEq, Eq)]
pub enum Stop {
    Returned,
    Budget,
    Fault(String),
}

pub struct Cpu {
    pub a: u8,
    pub x: u8,
    pub y: u8,
    pub s: u8,
    pub pc: u16,
    pub n: bool,
    pub v: bool,
    pub d: bool,
    pub i: bool,
    pub z: bool,
    pub c: bool,
    pub cycles: u64,
    pub instrs: u64,
    pub mem: Box<[u8; 65536]>,
    pub attr: Box<[u8; 65536]>,
    /// (write base, read base, len): cell storage lives at the write-port address
    pub ports: Vec<(u16, u16, u16)>,
    pub log: Vec<Access>,
    pub fault: Option<String>,
    table: Box<[Option<&'static OpInfo>; 256]>,
    pub min_s: u8,
}

pub const RETURN_SENTINEL: u16 = 0xFFF0;

impl Cpu {
    pub fn new() -> Cpu {
        let mut table: Box<[Option<&'static OpInfo>; 256]> = Box::new([None; 256]);
        for o in OPS {
            table[o.code as usize] = Some(o);
        }
        Cpu {
            a: 0,
            x: 0,
            y: 0,
            s: 0xFD,
            pc: 0,
            n: false,
            v: false,
            d: false,
            i: true,
            z: false,
            c: false,
            cycles: 0,
            instrs: 0,
            mem: vec![0u8; 65536].into_boxed_slice().try_into().unwrap(),
            attr: vec![0u8; 65536].into_boxed_slice().try_into().unwrap(),
            ports: Vec::new(),
            log: Vec::new(),
            fault: None,
            table,
            min_s: 0xFF,
        }
    }

    pub fn reset_run_state(&mut self) {
        self.cycles = 0;
        self.instrs = 0;
        self.log.clear();
        self.fault = None;
        self.s = 0xFD;
        self.min_s = 0xFF;
        self.n = false;
        self.v = false;
        self.d = false;
        self.z = false;
        self.c = false;
    }

    fn set_fault(&mut self, s: String) {
        if self.fault.is_none() {
            self.fault = Some(s);
        }
    }

    #[inline]
    pub fn rd(&mut self, addr: u16) -> u8 {
        let at = self.attr[addr as usize];
        if at == 0 {
            return self.mem[addr as usize];
        }
        let mut cell = addr;
        if at & A_WPORT != 0 {
            self.set_fault(format!("read of write port ${:04X} (pc=${:04X})", addr, self.pc));
        }
        if at & A_RPORT != 0 {
            for (w, r, l) in &self.ports {
                if addr >= *r && addr < r + l {
                    cell = w + (addr - r);
                }
            }
        }
        let v = self.mem[cell as usize];
        if at & A_LOG != 0 {
            self.log.push(Access { kind: AccKind::Read, addr, val: v, cycle: self.cycles });
        }
        v
    }

    #[inline]
    pub fn wr(&mut self, addr: u16, val: u8) {
        let at = self.attr[addr as usize];
        if at == 0 {
            self.mem[addr as usize] = val;
            return;
        }
        if at & A_RPORT != 0 {
            self.set_fault(format!("write to read port ${:04X} (pc=${:04X})", addr, self.pc));
            return;
        }
        if at & A_ROM != 0 {
            self.set_fault(format!("write to ROM ${:04X} (pc=${:04X})", addr, self.pc));
            return;
        }
        if at & A_LOG != 0 {
            self.log.push(Access { kind: AccKind::Write, addr, val, cycle: self.cycles });
        }
        self.mem[addr as usize] = val;
    }

    /// Raw cell access for the harness (variables placed in split-port RAM live at the write-port address)
    pub fn peek(&self, addr: u16) -> u8 {
        self.mem[addr as usize]
    }
    pub fn poke(&mut self, addr: u16, v: u8) {
        self.mem[addr as usize] = v;
    }

    fn push(&mut self, v: u8) {
        let a = 0x100u16 + self.s as u16;
        self.mem[a as usize] = v;
        self.s = self.s.wrapping_sub(1);
        if self.s < self.min_s {
            self.min_s = self.s;
        }
    }
    fn pull(&mut self) -> u8 {
        self.s = self.s.wrapping_add(1);
        self.mem[0x100 + self.s as usize]
    }
    fn nz(&mut self, v: u8) {
        self.n = v & 0x80 != 0;
        self.z = v == 0;
    }
    fn status(&self) -> u8 {
        (self.n as u8) << 7 | (self.v as u8) << 6 | 0x20 | (self.d as u8) << 3 | (self.i as u8) << 2 | (self.z as u8) << 1 | self.c as u8
    }
    fn set_status(&mut self, p: u8) {
        self.n = p & 0x80 != 0;
        self.v = p & 0x40 != 0;
        self.d = p & 0x08 != 0;
        self.i = p & 0x04 != 0;
        self.z = p & 0x02 != 0;
        self.c = p & 0x01 != 0;
    }
    fn adc(&mut self, m: u8) {
        if self.d {
            self.set_fault("decimal mode arithmetic".into());
        }
        let r = self.a as u16 + m as u16 + self.c as u16;
        let r8 = r as u8;
        self.v = (!(self.a ^ m) & (self.a ^ r8) & 0x80) != 0;
        self.c = r > 0xFF;
        self.a = r8;
        self.nz(r8);
    }
    fn cmp(&mut self, r: u8, m: u8) {
        let t = r.wrapping_sub(m);
        self.c = r >= m;
        self.nz(t);
    }

    /// Call the subroutine at `entry` and run until it returns (or budget / fault).
    pub fn call(&mut self, entry: u16, max_instrs: u64) -> Stop {
        let ret = RETURN_SENTINEL.wrapping_sub(1);
        self.push((ret >> 8) as u8);
        self.push((ret & 0xFF) as u8);
        self.pc = entry;
        self.run(max_instrs)
    }

    pub fn run(&mut self, max_instrs: u64) -> Stop {
        loop {
            if self.pc == RETURN_SENTINEL {
                return Stop::Returned;
            }
            if let Some(f) = self.fault.take() {
                return Stop::Fault(f);
            }
            if self.instrs >= max_instrs {
                return Stop::Budget;
            }
            self.step();
        }
    }

    pub fn step(&mut self) {
        let pc0 = self.pc;
        if self.attr[pc0 as usize] & A_XLOG != 0 {
            self.log.push(Access { kind: AccKind::Exec, addr: pc0, val: 0, cycle: self.cycles });
        }
        let opc = self.mem[pc0 as usize];
        let info = match self.table[opc as usize] {
            Some(i) => i,
            None => {
                self.set_fault(format!("undocumented opcode ${:02X} at ${:04X}", opc, pc0));
                return;
            }
        };
        self.instrs += 1;
        let b1 = self.mem[pc0.wrapping_add(1) as usize];
        let b2 = self.mem[pc0.wrapping_add(2) as usize];
        self.pc = pc0.wrapping_add(info.mode.len() as u16);
        let mut cyc = info.cycles as u64;
        let mut addr: u16 = 0;
        match info.mode {
            Mode::Imp | Mode::Acc | Mode::Imm | Mode::Rel => {}
            Mode::Zp => addr = b1 as u16,
            Mode::ZpX => addr = b1.wrapping_add(self.x) as u16,
            Mode::ZpY => addr = b1.wrapping_add(self.y) as u16,
            Mode::Abs => addr = (b2 as u16) << 8 | b1 as u16,
            Mode::AbsX => {
                let base = (b2 as u16) << 8 | b1 as u16;
                addr = base.wrapping_add(self.x as u16);
                if info.pagex && (base & 0xFF00) != (addr & 0xFF00) {
                    cyc += 1;
                }
            }
            Mode::AbsY => {
                let base = (b2 as u16) << 8 | b1 as u16;
                addr = base.wrapping_add(self.y as u16);
                if info.pagex && (base & 0xFF00) != (addr & 0xFF00) {
                    cyc += 1;
                }
            }
            Mode::Ind => {
                let p = (b2 as u16) << 8 | b1 as u16;
                let lo = self.mem[p as usize] as u16;
                let hi = self.mem[((p & 0xFF00) | ((p + 1) & 0xFF)) as usize] as u16;
                addr = hi << 8 | lo;
            }
            Mode::IndX => {
                let z = b1.wrapping_add(self.x);
                let lo = self.mem[z as usize] as u16;
                let hi = self.mem[z.wrapping_add(1) as usize] as u16;
                addr = hi << 8 | lo;
            }
            Mode::IndY => {
                let lo = self.mem[b1 as usize] as u16;
                let hi = self.mem[b1.wrapping_add(1) as usize] as u16;
                let base = hi << 8 | lo;
                addr = base.wrapping_add(self.y as u16);
                if info.pagex && (base & 0xFF00) != (addr & 0xFF00) {
                    cyc += 1;
                }
            }
        }
        // account cycles before the access so that logged accesses carry the start-of-instruction stamp
        let start_cycles = self.cycles;
        macro_rules! operand {
            () => {
                if info.mode == Mode::Imm { b1 } else { self.rd(addr) }
            };
        }
        macro_rules! rmw {
            ($f:expr) => {{
                if info.mode == Mode::Acc {
                    let v = self.a;
                    let r = $f(self, v);
                    self.a = r;
                    self.nz(r);
                } else {
                    let at = self.attr[addr as usize];
                    if at & (A_WPORT | A_RPORT) != 0 {
                        self.set_fault(format!("read-modify-write {} on split-port ${:04X} (pc=${:04X})", info.mnem, addr, pc0));
                    }
                    let v = self.rd(addr);
                    let r = $f(self, v);
                    self.wr(addr, r);
                    self.nz(r);
                }
            }};
        }
        macro_rules! branch {
            ($cond:expr) => {{
                if $cond {
                    let target = self.pc.wrapping_add((b1 as i8) as i16 as u16);
                    cyc += 1;
                    if (target & 0xFF00) != (self.pc & 0xFF00) {
                        cyc += 1;
                    }
                    self.pc = target;
                }
            }};
        }
        match info.mnem {
            "LDA" => { let v = operand!(); self.a = v; self.nz(v); }
            "LDX" => { let v = operand!(); self.x = v; self.nz(v); }
            "LDY" => { let v = operand!(); self.y = v; self.nz(v); }
            "STA" => { let v = self.a; self.wr(addr, v); }
            "STX" => { let v = self.x; self.wr(addr, v); }
            "STY" => { let v = self.y; self.wr(addr, v); }
            "TAX" => { self.x = self.a; let v = self.x; self.nz(v); }
            "TAY" => { self.y = self.a; let v = self.y; self.nz(v); }
            "TXA" => { self.a = self.x; let v = self.a; self.nz(v); }
            "TYA" => { self.a = self.y; let v = self.a; self.nz(v); }
            "TSX" => { self.x = self.s; let v = self.x; self.nz(v); }
            "TXS" => { self.s = self.x; }
            "ADC" => { let v = operand!(); self.adc(v); }
            "SBC" => { let v = operand!(); self.adc(!v); }
            "AND" => { let v = operand!(); self.a &= v; let r = self.a; self.nz(r); }
            "ORA" => { let v = operand!(); self.a |= v; let r = self.a; self.nz(r); }
            "EOR" => { let v = operand!(); self.a ^= v; let r = self.a; self.nz(r); }
            "CMP" => { let v = operand!(); let r = self.a; self.cmp(r, v); }
            "CPX" => { let v = operand!(); let r = self.x; self.cmp(r, v); }
            "CPY" => { let v = operand!(); let r = self.y; self.cmp(r, v); }
            "BIT" => { let v = operand!(); self.n = v & 0x80 != 0; self.v = v & 0x40 != 0; self.z = (v & self.a) == 0; }
            "ASL" => rmw!(|c: &mut Cpu, v: u8| { c.c = v & 0x80 != 0; v << 1 }),
            "LSR" => rmw!(|c: &mut Cpu, v: u8| { c.c = v & 1 != 0; v >> 1 }),
            "ROL" => rmw!(|c: &mut Cpu, v: u8| { let ci = c.c as u8; c.c = v & 0x80 != 0; (v << 1) | ci }),
            "ROR" => rmw!(|c: &mut Cpu, v: u8| { let ci = c.c as u8; c.c = v & 1 != 0; (v >> 1) | (ci << 7) }),
            "INC" => rmw!(|_c: &mut Cpu, v: u8| v.wrapping_add(1)),
            "DEC" => rmw!(|_c: &mut Cpu, v: u8| v.wrapping_sub(1)),
            "INX" => { self.x = self.x.wrapping_add(1); let v = self.x; self.nz(v); }
            "INY" => { self.y = self.y.wrapping_add(1); let v = self.y; self.nz(v); }
            "DEX" => { self.x = self.x.wrapping_sub(1); let v = self.x; self.nz(v); }
            "DEY" => { self.y = self.y.wrapping_sub(1); let v = self.y; self.nz(v); }
            "CLC" => self.c = false,
            "SEC" => self.c = true,
            "CLD" => self.d = false,
            "SED" => self.d = true,
            "CLI" => self.i = false,
            "SEI" => self.i = true,
            "CLV" => self.v = false,
            "NOP" => {}
            "PHA" => { let v = self.a; self.push(v); }
            "PLA" => { let v = self.pull(); self.a = v; self.nz(v); }
            "PHP" => { let v = self.status() | 0x10; self.push(v); }
            "PLP" => { let v = self.pull(); self.set_status(v); }
            "JMP" => self.pc = addr,
            "JSR" => {
                let ret = self.pc.wrapping_sub(1);
                self.push((ret >> 8) as u8);
                self.push((ret & 0xFF) as u8);
                self.pc = addr;
            }
            "RTS" => {
                let lo = self.pull() as u16;
                let hi = self.pull() as u16;
                self.pc = (hi << 8 | lo).wrapping_add(1);
            }
            "RTI" => {
                let p = self.pull();
                self.set_status(p);
                let lo = self.pull() as u16;
                let hi = self.pull() as u16;
                self.pc = hi << 8 | lo;
            }
            "BRK" => {
                self.set_fault(format!("BRK at ${:04X}", pc0));
            }
            "BCC" => branch!(!self.c),
            "BCS" => branch!(self.c),
            "BEQ" => branch!(self.z),
            "BNE" => branch!(!self.z),
            "BMI" => branch!(self.n),
            "BPL" => branch!(!self.n),
            "BVC" => branch!(!self.v),
            "BVS" => branch!(self.v),
            _ => unreachable!(),
        }
        self.cycles = start_cycles + cyc;
    }
}

/// Self-test: flags of ADC/SBC/CMP/shift/rotate against arithmetic definitions for all
/// operand/carry combinations; opcode table sanity (151 documented opcodes, unique codes).
pub fn selftest() -> Result<(), String> {
    if OPS.len() != 151 {
        return Err(format!("opcode table has {} entries, expected 151", OPS.len()));
    }
    let mut seen = [false; 256];
    for o in OPS {
        if seen[o.code as usize] {
            return Err(format!("duplicate opcode {:02X}", o.code));
        }
        seen[o.code as usize] = true;
    }
    let mut cpu = Cpu::new();
    for a in 0..=255u16 {
        for m in 0..=255u16 {
            for c in 0..2u16 {
                // ADC
                cpu.a = a as u8;
                cpu.c = c == 1;
                cpu.d = false;
                cpu.mem[0x200] = 0x69;
                cpu.mem[0x201] = m as u8;
                cpu.pc = 0x200;
                cpu.step();
                let sum = a + m + c;
                let sv = (a as u8 as i8) as i32 + (m as u8 as i8) as i32 + c as i32;
                if cpu.a != sum as u8 || cpu.c != (sum > 255) || cpu.z != (sum as u8 == 0) || cpu.n != (sum as u8 >= 128) || cpu.v != !(-128..=127).contains(&sv) {
                    return Err(format!("ADC {} {} {}", a, m, c));
                }
                // SBC
                cpu.a = a as u8;
                cpu.c = c == 1;
                cpu.mem[0x200] = 0xE9;
                cpu.pc = 0x200;
                cpu.step();
                let diff = a as i32 - m as i32 - (1 - c as i32);
                let sv = (a as u8 as i8) as i32 - (m as u8 as i8) as i32 - (1 - c as i32);
                if cpu.a != (diff & 0xFF) as u8 || cpu.c != (diff >= 0) || cpu.z != ((diff & 0xFF) == 0) || cpu.n != ((diff & 0x80) != 0) || cpu.v != !(-128..=127).contains(&sv) {
                    return Err(format!("SBC {} {} {}", a, m, c));
                }
            }
            // CMP
            cpu.a = a as u8;
            cpu.mem[0x200] = 0xC9;
            cpu.mem[0x201] = m as u8;
            cpu.pc = 0x200;
            cpu.step();
            let t = (a as i32 - m as i32) & 0xFF;
            if cpu.c != (a >= m) || cpu.z != (a == m) || cpu.n != (t & 0x80 != 0) {
                return Err(format!("CMP {} {}", a, m));
            }
        }
        for c in 0..2u16 {
            for (opc, f) in [
                (0x0Au8, (|v: u16, _c: u16| ((v << 1) & 0xFF, v >> 7)) as fn(u16, u16) -> (u16, u16)),
                (0x4A, |v, _c| (v >> 1, v & 1)),
                (0x2A, |v, c| (((v << 1) | c) & 0xFF, v >> 7)),
                (0x6A, |v, c| ((v >> 1) | (c << 7), v & 1)),
            ] {
                cpu.a = a as u8;
                cpu.c = c == 1;
                cpu.mem[0x200] = opc;
                cpu.pc = 0x200;
                cpu.step();
                let (r, co) = f(a, c);
                if cpu.a != r as u8 || cpu.c != (co == 1) || cpu.z != (r == 0) || cpu.n != (r & 0x80 != 0) {
                    return Err(format!("shift {:02X} {} {}", opc, a, c));
                }
            }
        }
    }
    // cycle checks: a few known sequences
    let mut cpu = Cpu::new();
    let prog: &[u8] = &[
        0xA9, 0x01, // LDA #1 (2)
        0x85, 0x80, // STA $80 (3)
        0xC6, 0x2D, // DEC $2D (5)
        0x48, 0x68, // PHA PLA (3+4)
        0xEA, // NOP (2)
        0xBD, 0xFF, 0x10, // LDA $10FF,X with X=1 -> page cross (5)
        0xD0, 0x00, // BNE +0 taken (3) (A != 0 assumed)
        0x60,
    ];
    for (i, b) in prog.iter().enumerate() {
        cpu.mem[0x300 + i] = *b;
    }
    cpu.mem[0x1100] = 7;
    cpu.x = 1;
    let st = cpu.call(0x300, 100);
    if st != Stop::Returned {
        return Err(format!("cycle test did not return: {:?}", st));
    }
    let expect = 2 + 3 + 5 + 3 + 4 + 2 + 5 + 3 + 6;
    if cpu.cycles != expect {
        return Err(format!("cycle test: {} != {}", cpu.cycles, expect));
    }
    Ok(())
}
