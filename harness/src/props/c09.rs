//! C09 — string and character literals are stored byte-exact.

use crate::drv::{self, Def, Outcome, Record, Val};
use crate::engine::{hash64, CaseOutcome, Check, Status, Tier};
use serde_json::{json, Value};
use std::sync::OnceLock;

pub const ATOMS: [(&str, &[u8]); 20] = [
    ("a", b"a"),
    (" ", b" "),
    ("\\n", &[10]),
    ("\\r", &[13]),
    ("\\t", &[9]),
    ("\\a", &[7]),
    ("\\b", &[8]),
    ("\\f", &[12]),
    ("\\v", &[11]),
    ("\\0", &[0]),
    ("\\\\", &[92]),
    ("\\\"", &[34]),
    ("//", b"//"),
    ("/*", b"/*"),
    ("*/", b"*/"),
    ("#", b"#"),
    ("'", b"'"),
    ("M", b"M"),
    ("@0@", b"@0@"),
    ("%", b"%"),
];

#[derive(Clone, Copy, Debug, PartialEq, Eq)]
pub enum Place {
    PtrInit,
    ArrInit,
    TableElem,
    CallArg,
    TwoCallsOneExpr,
    TwoArgs,
    Adjacent,
    AsmStmt,
    TwoOnLine,
    BeforeLineComment,
    BeforeBlockComment,
    AfterBlockComment,
    AroundInclude,
    AfterSkippedRegion,
    ThreeCallsThenStmt,
    SplicedLiteral,
    LocalInitTwoCalls,
    CharConst,
    CharConstMacro,
    CharCase,
    CharExpr,
}

pub struct LCase {
    pub place: Place,
    pub atoms: Vec<usize>,
}

fn spell(atoms: &[usize]) -> String {
    atoms.iter().map(|a| ATOMS[*a].0).collect()
}
fn bytes(atoms: &[usize]) -> Vec<u8> {
    let mut v = Vec::new();
    for a in atoms {
        v.extend_from_slice(ATOMS[*a].1);
    }
    v
}

pub fn cases(tier: Tier) -> Vec<LCase> {
    let mut bodies: Vec<Vec<usize>> = vec![vec![]];
    let n = ATOMS.len();
    for a in 0..n {
        bodies.push(vec![a]);
    }
    for a in 0..n {
        for b in 0..n {
            bodies.push(vec![a, b]);
        }
    }
    let max3 = if tier == Tier::Quick { 0 } else { n };
    for a in 0..max3 {
        for b in 0..n {
            for c in 0..n {
                bodies.push(vec![a, b, c]);
            }
        }
    }
    if tier == Tier::Quick {
        // a slice of the 3-atom bodies: every pair preceded and followed by 'a'
        for a in 0..n {
            for b in 0..n {
                bodies.push(vec![0, a, b]);
                bodies.push(vec![a, b, 0]);
            }
        }
    }
    let places_all = [
        Place::PtrInit,
        Place::ArrInit,
        Place::TableElem,
        Place::CallArg,
        Place::TwoCallsOneExpr,
        Place::TwoArgs,
        Place::Adjacent,
        Place::AsmStmt,
        Place::TwoOnLine,
        Place::BeforeLineComment,
        Place::BeforeBlockComment,
        Place::AfterBlockComment,
        Place::AroundInclude,
        Place::AfterSkippedRegion,
        Place::ThreeCallsThenStmt,
        Place::SplicedLiteral,
        Place::LocalInitTwoCalls,
    ];
    let mut v = Vec::new();
    for (k, b) in bodies.iter().enumerate() {
        for (pi, p) in places_all.iter().enumerate() {
            // the heavier placements on a slice of the bodies in the quick tier
            if tier == Tier::Quick && b.len() == 3 && pi >= 2 && (k + pi) % 4 != 0 {
                continue;
            }
            v.push(LCase { place: *p, atoms: b.clone() });
        }
    }
    for a in 0..n {
        if ATOMS[a].1.len() == 1 {
            for p in [Place::CharConst, Place::CharConstMacro, Place::CharCase, Place::CharExpr] {
                v.push(LCase { place: p, atoms: vec![a] });
            }
        }
    }
    v
}

fn array_bytes(rec: &Record, name: &str) -> Option<Vec<i32>> {
    rec.vars.iter().find(|v| v.name == name).and_then(|v| match &v.def {
        Def::Array(a) => Some(
            a.iter()
                .map(|x| match x {
                    Val::Int(i) => *i,
                    _ => -1,
                })
                .collect(),
        ),
        _ => None,
    })
}

fn literal_vars(rec: &Record) -> Vec<(String, Vec<i32>)> {
    let mut v = Vec::new();
    for x in &rec.vars {
        if x.name.starts_with("cctmp") {
            if let Some(b) = array_bytes(rec, &x.name) {
                v.push((x.name.clone(), b));
            }
        }
    }
    v
}

fn include_dir() -> String {
    static DIR: OnceLock<String> = OnceLock::new();
    DIR.get_or_init(|| {
        let d = format!("{}/c09inc_{}", crate::engine::run_dir(), std::process::id());
        std::fs::create_dir_all(&d).expect("scratch include dir");
        std::fs::write(format!("{}/c09hdr.h", d), "const char *hdr = \"HEADER\";\n").expect("write header");
        d
    })
    .clone()
}

pub fn run(c: &LCase) -> CaseOutcome {
    let sp = spell(&c.atoms);
    let ident = format!("C09|{:?}|{}", c.place, sp);
    let mut o = CaseOutcome::new(ident.clone());
    o.evals = 1;
    let mut want: Vec<i32> = bytes(&c.atoms).iter().map(|b| *b as i32).collect();
    want.push(0);
    let pre = "#define M 99\n";
    let src: String = match c.place {
        Place::PtrInit => format!("{}const char *s = \"{}\";\nvoid main() {{}}\n", pre, sp),
        Place::ArrInit => format!("{}const char s[] = \"{}\";\nvoid main() {{}}\n", pre, sp),
        Place::TableElem => format!("{}const char *tb[] = {{\"{}\", \"zz\"}};\nvoid main() {{}}\n", pre, sp),
        Place::CallArg => format!("{}char r;\nvoid f(char *p) {{ r = p[Y]; }}\nvoid main() {{ f(\"{}\"); }}\n", pre, sp),
        Place::TwoCallsOneExpr => format!("{}char r;\nchar k(char *p) {{ return p[Y]; }}\nvoid main() {{ r = k(\"{}\") | k(\"zz\"); }}\n", pre, sp),
        Place::TwoArgs => format!("{}char r;\nvoid f(char *p, char *q) {{ r = p[Y]; r = q[Y]; }}\nvoid main() {{ f(\"{}\", \"zz\"); }}\n", pre, sp),
        Place::Adjacent => format!("{}const char *s = \"{}\" \"{}\";\nvoid main() {{}}\n", pre, sp, sp),
        Place::AsmStmt => format!("{}void main() {{ asm(\"{}\", 1); }}\n", pre, sp),
        Place::TwoOnLine => format!("{}const char *s = \"{}\"; const char *t = \"zz\";\nvoid main() {{}}\n", pre, sp),
        Place::BeforeLineComment => format!("{}const char *s = \"{}\"; // tail \" quote M\nconst char *t = \"zz\";\nvoid main() {{}}\n", pre, sp),
        Place::BeforeBlockComment => format!("{}const char *s = \"{}\"; /* tail \" M */\nconst char *t = \"zz\";\nvoid main() {{}}\n", pre, sp),
        Place::AfterBlockComment => format!("{}/* lead */ const char *s = \"{}\";\nconst char *t = \"zz\";\nvoid main() {{}}\n", pre, sp),
        Place::AroundInclude => format!("{}const char *s = \"{}\";\n#include \"c09hdr.h\"\nconst char *t = \"zz\";\nvoid main() {{}}\n", pre, sp),
        Place::AfterSkippedRegion => format!("{}#ifdef UNDEF\nconst char *d1 = \"skip1\";\n#else\nconst char *d2 = \"kept\";\n#endif\n#if 0\nconst char *d3 = \"skip2\"; const char *d4 = \"skip3\";\n#endif\nconst char *s = \"{}\";\nconst char *t = \"zz\";\nvoid main() {{}}\n", pre, sp),
        Place::ThreeCallsThenStmt => format!("{}char r; char *q;\nchar k(char *p) {{ return p[Y]; }}\nvoid main() {{ r = k(\"{}\") + k(\"yy\") + k(\"xx\"); q = \"zz\"; }}\n", pre, sp),
        // the literal goes on after a backslash-newline, with blanks that belong to it
        Place::SplicedLiteral => format!("{}const char *s = \"{}\\\n   {}\";\nconst char *t = \"zz\";\nvoid main() {{}}\n", pre, sp, sp),
        Place::LocalInitTwoCalls => format!("{}char r;\nchar k(char *p) {{ return p[Y]; }}\nvoid main() {{ char y = k(\"{}\") | k(\"zz\"); r = y; }}\n", pre, sp),
        Place::CharConst => format!("{}const char c = '{}';\nvoid main() {{}}\n", pre, sp),
        // a one-character macro named like the character (only meaningful for identifier characters)
        Place::CharConstMacro => format!("{}#define {} 5\nconst char c = '{}';\nvoid main() {{}}\n", pre, if sp == "a" || sp == "M" { sp.as_str() } else { "zq" }, sp),
        Place::CharCase => format!("{}char a, r;\nvoid main() {{ switch (a) {{ case '{}': r = 1; }} }}\n", pre, sp),
        Place::CharExpr => format!("{}char r;\nvoid main() {{ r = '{}'; }}\n", pre, sp),
    };
    let incdir = include_dir();
    let (out, _) = drv::compile_src(src.as_bytes(), &["-O0", "-I", incdir.as_str()]);
    let coord = format!("coord:C09:{:?}:{}", c.place, sp);
    let mut fail = |o: &mut CaseOutcome, kind: &str, what: String| {
        o.fail(coord.clone(), kind, format!("{:?} literal body `{}`\n--- {}\n--- source\n{}", c.place, sp, what, src));
    };
    let rec = match out {
        Outcome::Ok(r) => r,
        Outcome::Err(e) => {
            // the property speaks about accepted literals; a rejection is counted
            o.count(&format!("rejected: {}", e.msg.chars().take(50).collect::<String>()), 1);
            o.status = Status::Rejected;
            return o;
        }
        Outcome::Panic { loc, msg } => {
            fail(&mut o, "panic", format!("panic at {}: {}", loc, msg));
            return o;
        }
    };
    o.nontrivial = !c.atoms.is_empty();
    let zz: Vec<i32> = vec![122, 122, 0];
    match c.place {
        Place::PtrInit | Place::ArrInit | Place::TwoOnLine | Place::BeforeLineComment | Place::BeforeBlockComment | Place::AfterBlockComment | Place::AroundInclude | Place::AfterSkippedRegion | Place::Adjacent | Place::SplicedLiteral => {
            let mut w = want.clone();
            if c.place == Place::SplicedLiteral {
                // body, three blanks, body
                w.pop();
                let mut w2 = w.clone();
                w2.extend_from_slice(&[32, 32, 32]);
                w2.extend_from_slice(&w);
                w2.push(0);
                w = w2;
            }
            if c.place == Place::Adjacent {
                w.pop();
                let mut w2 = w.clone();
                w2.extend_from_slice(&w);
                w2.push(0);
                w = w2;
            }
            let got = array_bytes(&rec, "s");
            o.outcomes.push(hash64(&format!("{:?}", got)));
            if got.as_ref() != Some(&w) {
                fail(&mut o, "wrong-bytes", format!("stored {:?}, expected {:?}", got, w));
            } else if !matches!(c.place, Place::PtrInit | Place::ArrInit | Place::Adjacent) {
                let t = array_bytes(&rec, "t");
                if t.as_ref() != Some(&zz) {
                    fail(&mut o, "next-declaration-damaged", format!("the following declaration t = \"zz\" is stored as {:?}", t));
                }
                if c.place == Place::AfterSkippedRegion {
                    let h = array_bytes(&rec, "d2");
                    let hw: Vec<i32> = b"kept\0".iter().map(|b| *b as i32).collect();
                    if h.as_ref() != Some(&hw) {
                        fail(&mut o, "literal-after-skipped-region-damaged", format!("the literal in the active #else branch is stored as {:?}", h));
                    }
                }
                if c.place == Place::AroundInclude {
                    let h = array_bytes(&rec, "hdr");
                    let hw: Vec<i32> = b"HEADER\0".iter().map(|b| *b as i32).collect();
                    if h.as_ref() != Some(&hw) {
                        fail(&mut o, "included-literal-damaged", format!("the literal of the included header is stored as {:?}", h));
                    }
                }
            }
        }
        Place::TableElem | Place::CallArg | Place::TwoCallsOneExpr | Place::TwoArgs | Place::ThreeCallsThenStmt | Place::LocalInitTwoCalls => {
            let lits = literal_vars(&rec);
            let mut wanted: Vec<Vec<i32>> = vec![want.clone()];
            if c.place != Place::CallArg {
                wanted.push(zz.clone());
            }
            if c.place == Place::ThreeCallsThenStmt {
                wanted.push(vec![121, 121, 0]);
                wanted.push(vec![120, 120, 0]);
            }
            o.outcomes.push(hash64(&format!("{:?}", lits)));
            // every literal of the source must exist as its own variable with its own bytes
            let mut pool: Vec<Vec<i32>> = lits.iter().map(|l| l.1.clone()).collect();
            for w in &wanted {
                match pool.iter().position(|p| p == w) {
                    Some(i) => {
                        pool.remove(i);
                    }
                    None => {
                        fail(&mut o, "literal-missing", format!("no literal variable holds {:?}; literal variables: {:?}", w, lits));
                        return o;
                    }
                }
            }
            if c.place == Place::TableElem {
                let tb = rec.vars.iter().find(|v| v.name == "tb");
                match tb.map(|v| &v.def) {
                    Some(Def::ArrayOfPointers(p)) => {
                        let first = lits.iter().find(|l| l.0 == p[0].0).map(|l| l.1.clone());
                        let second = lits.iter().find(|l| l.0 == p[1].0).map(|l| l.1.clone());
                        if first.as_ref() != Some(&want) || second.as_ref() != Some(&zz) {
                            fail(&mut o, "table-points-elsewhere", format!("table entries refer to {:?} / {:?}", first, second));
                        }
                    }
                    other => fail(&mut o, "table-shape", format!("tb is {:?}", other)),
                }
            } else {
                // the emitted code must refer to each literal's own symbol
                let text: String = rec.funcs.iter().map(|f| f.text.clone()).collect();
                for (name, b) in &lits {
                    if wanted.contains(b) && !text.contains(&format!("#<{}", name)) {
                        fail(&mut o, "literal-not-referenced", format!("symbol {} ({:?}) is never used by the emitted code:\n{}", name, b, text));
                        break;
                    }
                }
            }
        }
        Place::AsmStmt => {
            let text = rec.funcs.iter().find(|f| f.name == "main").map(|f| f.text.clone()).unwrap_or_default();
            let decoded: String = bytes(&c.atoms).iter().map(|b| *b as char).collect();
            if !decoded.contains('\n') && !decoded.contains('\r') && !decoded.contains('\0') {
                let line = format!("\t{}\n", decoded);
                o.outcomes.push(hash64(&text));
                if !text.contains(&line) {
                    fail(&mut o, "asm-text-differs", format!("emitted {:?}, expected a line {:?}", text, line));
                }
            }
        }
        Place::CharConst | Place::CharConstMacro | Place::CharCase | Place::CharExpr => {
            let code = ATOMS[c.atoms[0]].1[0] as i32;
            match c.place {
                Place::CharConst | Place::CharConstMacro => {
                    let got = rec.vars.iter().find(|v| v.name == "c").map(|v| v.def.clone());
                    if got != Some(Def::Value(Val::Int(code))) {
                        fail(&mut o, "wrong-char-code", format!("stored {:?}, expected {}", got, code));
                    }
                }
                _ => {
                    let text = rec.funcs.iter().find(|f| f.name == "main").map(|f| f.text.clone()).unwrap_or_default();
                    // a comparison with 0 needs no immediate operand
                    if !(c.place == Place::CharCase && code == 0) && !text.contains(&format!("#{}\n", code)) {
                        fail(&mut o, "wrong-char-code", format!("emitted code does not use #{}:\n{}", code, text));
                    }
                }
            }
        }
    }
    o.sample = json!({"place": format!("{:?}", c.place), "literal": sp, "bytes": want});
    o
}

pub struct C09 {
    q: OnceLock<Vec<LCase>>,
    t: OnceLock<Vec<LCase>>,
}

impl C09 {
    pub fn new() -> C09 {
        C09 { q: OnceLock::new(), t: OnceLock::new() }
    }
    fn cs(&self, tier: Tier) -> &Vec<LCase> {
        match tier {
            Tier::Quick => self.q.get_or_init(|| cases(tier)),
            Tier::Thorough => self.t.get_or_init(|| cases(tier)),
        }
    }
}

impl Check for C09 {
    fn prop(&self) -> &'static str {
        "C09"
    }
    fn level(&self) -> &'static str {
        "exploration"
    }
    fn rule(&self) -> String {
        "Literal bodies = all sequences of <= 2 atoms (quick; plus 3-atom bodies around every pair) / <= 3 atoms (thorough) from a 20-atom alphabet {a, space, every escape \\n \\r \\t \\a \\b \\f \\v \\0 \\\\ \\\", //, /*, */, #, ', a defined macro name, @0@, %}, placed in 12 positions (pointer and array initialiser, pointer-table element, call argument, two calls in one expression, two arguments of one call, adjacent literals, asm statement, two literals on a line, before a // comment, before and after a block comment) plus every single-character atom as a character constant (initialiser, case label, expression). Oracle: a decoder of C escapes gives the expected bytes; the literal's variable in CompilerState.variables must hold exactly those bytes plus one NUL, tables/arguments must refer to that variable, the declaration after the literal must be intact. Non-trivial = non-empty accepted literal.".into()
    }
    fn assumptions(&self) -> Vec<String> {
        vec!["a literal the compiler rejects is outside the property (counted)".into(), "\\f denotes form feed (12)".into()]
    }
    fn n_cases(&self, tier: Tier) -> usize {
        self.cs(tier).len()
    }
    fn case_ident(&self, tier: Tier, idx: usize) -> String {
        let c = &self.cs(tier)[idx];
        format!("C09|{:?}|{}", c.place, spell(&c.atoms))
    }
    fn run_case(&self, tier: Tier, idx: usize) -> CaseOutcome {
        run(&self.cs(tier)[idx])
    }
    fn bounds(&self, tier: Tier) -> Value {
        json!({"atoms": ATOMS.iter().map(|a| a.0).collect::<Vec<_>>(), "max_atoms": if tier == Tier::Quick { 2 } else { 3 }, "places": 21})
    }
}
