//! C16 — compilation is total: a result or a located error, never a crash.

use crate::drv::{self, Outcome};
use crate::engine::{hash64, CaseOutcome, Check, Tier};
use crate::gen2;
use serde_json::{json, Value};
use std::sync::OnceLock;

pub struct Input {
    pub family: &'static str,
    pub name: String,
    pub src: Vec<u8>,
    pub opts: Vec<&'static str>,
}

/// split a source text into tokens (whitespace kept as separate tokens so that the text can be re-joined)
pub fn tokens(src: &str) -> Vec<String> {
    let cs: Vec<char> = src.chars().collect();
    let mut out = Vec::new();
    let mut i = 0;
    let ops = ["<<=", ">>=", "++", "--", "+=", "-=", "*=", "/=", "&=", "|=", "^=", "<<", ">>", "<=", ">=", "==", "!=", "&&", "||"];
    while i < cs.len() {
        let c = cs[i];
        if c.is_whitespace() {
            let st = i;
            while i < cs.len() && cs[i].is_whitespace() {
                i += 1;
            }
            out.push(cs[st..i].iter().collect());
        } else if c.is_ascii_alphanumeric() || c == '_' {
            let st = i;
            while i < cs.len() && (cs[i].is_ascii_alphanumeric() || cs[i] == '_') {
                i += 1;
            }
            out.push(cs[st..i].iter().collect());
        } else if c == '"' {
            let st = i;
            i += 1;
            while i < cs.len() && cs[i] != '"' {
                if cs[i] == '\\' {
                    i += 1;
                }
                i += 1;
            }
            i = (i + 1).min(cs.len());
            out.push(cs[st..i].iter().collect());
        } else if c == '\'' {
            let st = i;
            i += 1;
            while i < cs.len() && cs[i] != '\'' {
                if cs[i] == '\\' {
                    i += 1;
                }
                i += 1;
            }
            i = (i + 1).min(cs.len());
            out.push(cs[st..i].iter().collect());
        } else {
            let mut m = None;
            for o in ops.iter() {
                let oc: Vec<char> = o.chars().collect();
                if i + oc.len() <= cs.len() && cs[i..i + oc.len()] == oc[..] {
                    m = Some(oc.len());
                    break;
                }
            }
            let n = m.unwrap_or(1);
            out.push(cs[i..i + n].iter().collect());
            i += n;
        }
    }
    out
}

pub const CORPUS: [&str; 33] = [
    "unsigned char a, b, r;\nvoid main()\n{\n  r = a + b;\n}\n",
    "char a;\nshort s;\nvoid main()\n{\n  s = a << 8 | 3;\n  if (s >= 256) a = 1; else a = 2;\n}\n",
    "char arr[4];\nconst char tab[3] = {1, 2, 3};\nvoid main()\n{\n  for (X = 0; X < 3; X++) arr[X] = tab[X];\n}\n",
    "char a, r;\nvoid main()\n{\n  switch (a) {\n  case 1:\n    r = 1;\n    break;\n  case 2:\n  case 3:\n    r = 2;\n  default:\n    r = 3;\n  }\n}\n",
    "char a, r;\nchar f(char v) { return v + 1; }\nvoid main()\n{\n  r = f(a);\n  while (a) { a--; r++; }\n}\n",
    "char *p;\nchar arr[2];\nchar r;\nvoid main()\n{\n  p = arr;\n  r = p[Y];\n  *p = 3;\n  p++;\n}\n",
    "#define N 3\n#define ADD(x, y) ((x) + (y))\nchar r;\nvoid main()\n{\n  r = ADD(N, 1);\n}\n",
    "#ifdef FOO\nchar a;\n#else\nchar b;\n#endif\nvoid main()\n{\n#if 1\n  b = 1;\n#endif\n}\n",
    "const char *s = \"hello\";\nchar r;\nvoid main()\n{\n  r = s[Y];\n}\n",
    "char a, b;\nvoid main()\n{\n  do { a++; if (a == 3) continue; if (a == 5) break; } while (a != b);\n}\n",
    "char a;\nvoid main()\n{\n  a = 'x';\n  asm(\"NOP\", 1);\n  csleep(4);\n  load(a);\n  store(a);\n}\n",
    "char *const REG = 0x3e;\nchar a;\nvoid main()\n{\n  strobe(REG);\n  *REG = a;\n  a = *REG;\n}\n",
    "signed char a, b;\nchar r;\nvoid main()\n{\n  r = a < b ? 1 : 2;\n  r = -a;\n  r = ~b;\n  r = !a;\n}\n",
    "short s, t;\nunsigned short u;\nvoid main()\n{\n  s += t;\n  u = s & 0xff;\n  s++;\n  t--;\n  s <<= 1;\n}\n",
    "char a, r;\nvoid main()\n{\n  goto l1;\n  r = 1;\nl1:\n  r = 2;\n  {\n    char i;\n    i = a;\n    r = i;\n  }\n}\n",
    "inline void k() { X++; }\nvoid interrupt nmi() { Y++; }\nvoid main()\n{\n  k();\n  k();\n}\n",
    "char a, b, c;\nvoid main()\n{\n  if (a && b || !c) a = 1;\n  else if (a == 1 && (b != 2 || c >= 3)) a = 2;\n}\n",
    "superchip char sa;\nsuperchip short ss;\nvoid main()\n{\n  sa = 1;\n  ss = 2;\n  sa++;\n}\n",
    "const char t2[] = {1, 2, 3, 4};\nconst char *tt[] = {t2, t2};\nchar *q;\nvoid main()\n{\n  q = tt[X];\n}\n",
    "char a;\nconst char k = 5 * 3 + (2 << 1);\nchar arr[5 * 3];\nvoid main()\n{\n  a = sizeof(arr);\n  a = k;\n}\n",
    "/* comment */\nchar a; // trailing\nvoid main() /* c */\n{\n  a = 1; /* multi\n  line */ a = 2;\n}\n",
    "char a;\nvoid g();\nvoid f() { g(); }\nvoid g() { a++; }\nvoid main()\n{\n  f();\n}\n",
    "aligned(256) const char big[3] = {1, 2, 3};\nbank1 const char inb[2] = {4, 5};\nchar r;\nvoid main()\n{\n  r = big[X];\n}\n",
    "char a;\nvoid main()\n{\n  a = 010;\n  a = 0x1f;\n  a = '\\n';\n  a = -1;\n  a = 255;\n}\n",
    "char a, b;\nvoid main()\n{\n  a = b = 3;\n  a += b -= 1;\n  a = (b, 2);\n  a = b++ + 1;\n  --a;\n}\n",
    "char i;\nvoid main()\n{\n  for (i = 0; i != 10; i++) {\n    if (i & 1) continue;\n    X = i;\n  }\n  for (i = 0; i < 3; ) { i++; if (i == 2) break; }\n}\n",
    "#define A 1\n#undef A\n#define A 2\n#if A == 2\nchar two;\n#elif A\nchar other;\n#endif\nvoid main()\n{\n}\n",
    "unsigned char x;\nchar f(char a, char b) { if (a > b) return a; return b; }\nvoid main()\n{\n  x = f(1, f(2, 3));\n}\n",
    "short tab16[2];\nchar idx;\nvoid main()\n{\n  tab16[X] = 1000;\n  tab16[1] += 2;\n  idx = tab16[X] >> 8;\n}\n",
    "char a;\nvoid main()\n{\n  while (a < 10) a += 2;\n  do a--; while (a);\n  if (a) ; else a = 1;\n}\n",
    "unsigned char lo, hi;\nvoid main()\n{\n  short int wide;\n  unsigned short int uw;\n  wide = 0x1234;\n  wide += 0x100;\n  uw = wide;\n  lo = uw;\n  hi = wide >> 8;\n}\n",
    "short frame_counter_16bit;\nshort another_quite_long_name_16;\nunsigned char lo, hi;\nvoid main()\n{\n  frame_counter_16bit = 0x1234;\n  another_quite_long_name_16 = frame_counter_16bit;\n  lo = frame_counter_16bit;\n  hi = another_quite_long_name_16 >> 8;\n}\n",
    "char i, j;\nconst char *msg[] = {\"zoba\", \"zobi\"};\nchar *q;\nvoid main()\n{\n  i = 1; /* set i */\n  j = 2; // set j\n  q = msg[X];\n}\n",
];

pub const REPL: [&str; 40] = [
    "int", "char", "short", "void", "const", "if", "else", "while", "for", "return", "sizeof", "X", "a", "main", "0", "1", "99999999999", "0x", "0xffffffffff", "'a'", "\"s\"", "(", ")", "{", "}", "[", "]", ";", ",", "=", "==", "*=", "~", "!", "-", "--", "*",
    "&", "#", "@0@",
];

pub fn directed() -> Vec<Input> {
    let mut v: Vec<Input> = Vec::new();
    let mut raw: Vec<(String, Vec<u8>)> = Vec::new();
    let mut add = |name: &str, src: &str| v.push(Input { family: "directed", name: name.to_string(), src: src.as_bytes().to_vec(), opts: vec!["-O1"] });
    add("empty file", "");
    add("whitespace only", "  \n\t\n");
    add("newline only", "\n");
    add("comment only", "// nothing\n");
    add("no final newline", "char a;\nvoid main() { a = 1; }");
    add("pointer to short", "short *p;\nvoid main() {}\n");
    add("pointer to pointer", "char **p;\nvoid main() {}\n");
    for lit in ["99999999999", "4294967296", "2147483648", "0xffffffffff", "0x100000000", "077777777777777", "-99999999999"] {
        add(&format!("literal {} in statement", lit), &format!("char i;\nvoid main() {{ i = {}; }}\n", lit));
        add(&format!("literal {} in initialiser", lit), &format!("const char i = {};\nvoid main() {{}}\n", lit));
        add(&format!("literal {} as array size", lit), &format!("char arr[{}];\nvoid main() {{}}\n", lit));
    }
    add("case --1", "char a;\nvoid main() { switch (a) { case --1: a = 1; } }\n");
    add("csleep(--1)", "void main() { csleep(--1); }\n");
    add("pointer offset --1", "char t[3];\nconst char *q = t + --1;\nvoid main() {}\n");
    add("division by zero (statement)", "char i;\nvoid main() { i = 1 / 0; }\n");
    add("division by zero (initialiser)", "const char i = 1 / 0;\nvoid main() {}\n");
    add("modulo", "char i;\nvoid main() { i = 5 % 0; }\n");
    add("run-time division", "char i, j;\nvoid main() { i = i / j; }\n");
    add("run-time multiplication", "char i, j;\nvoid main() { i = i * j; }\n");
    add("void value assigned", "char i;\nvoid f() {}\nvoid main() { i = f(); }\n");
    add("void value to register", "void f() {}\nvoid main() { Y = f(); }\n");
    add("void value returned", "void f() {}\nchar g() { return f(); }\nvoid main() { g(); }\n");
    add("void value in condition", "void f() {}\nchar i;\nvoid main() { if (f()) i = 1; }\n");
    add("void value as argument", "void f() {}\nvoid g(char v) {}\nvoid main() { g(f()); }\n");
    add("undeclared identifier", "void main() { zz = 1; }\n");
    add("undeclared function", "void main() { zz(); }\n");
    add("prototype only", "void f();\nvoid main() { f(); }\n");
    add("prototype only with value", "char f();\nchar i;\nvoid main() { i = f(); }\n");
    add("inline prototype only", "inline void f();\nvoid main() { f(); }\n");
    add("compound multiply", "char i;\nvoid main() { i *= 2; }\n");
    add("compound divide", "char i;\nvoid main() { i /= 2; }\n");
    add("infix tilde in constant", "const char i = 1 ~ 2;\nvoid main() {}\n");
    add("infix not in constant", "const char i = 1 ! 2;\nvoid main() {}\n");
    add("unbalanced #endif", "#endif\nvoid main() {}\n");
    add("unbalanced #else", "#else\nvoid main() {}\n");
    add("unbalanced #elif", "#elif 1\nvoid main() {}\n");
    add("unterminated #if", "#if 1\nvoid main() {}\n");
    add("unterminated #if 0", "#if 0\nvoid main() {}\n");
    add("#if without expression", "#if\nvoid main() {}\n#endif\n");
    add("#ifdef without name", "#ifdef\nvoid main() {}\n#endif\n");
    add("#define without name", "#define\nvoid main() {}\n");
    add("#define with digit name", "#define 1 2\nvoid main() {}\n");
    add("#include without name", "#include\nvoid main() {}\n");
    add("#include missing file", "#include \"does_not_exist.h\"\nvoid main() {}\n");
    add("#include bad separator", "#include does_not_exist.h\nvoid main() {}\n");
    add("#include unterminated", "#include \"abc\nvoid main() {}\n");
    add("unknown directive", "#pragma once\nvoid main() {}\n");
    add("self-referential macro", "#define A A\nchar A;\nvoid main() {}\n");
    add("self-referential macro with growth", "#define A A+1\nchar r;\nvoid main() { r = A; }\n");
    add("mutually referential macros", "#define B C\n#define C B\nchar r;\nvoid main() { r = C; }\n");
    add("function-like self reference", "#define F(x) F(x)\nchar r;\nvoid main() { r = F(1); }\n");
    add("macro redefinition", "#define A 1\n#define A 2\nvoid main() {}\n");
    add("macro with unbalanced paren use", "#define F(x) x\nchar r;\nvoid main() { r = F(1; }\n");
    add("macro called with too few args", "#define F(x, y) x+y\nchar r;\nvoid main() { r = F(1); }\n");
    add("macro name that is a regex", "#define A.B 1\nvoid main() {}\n");
    add("macro parameter with regex chars", "#define F(x) $x\nchar r;\nvoid main() { r = F(1); }\n");
    add("macro body with dollar", "#define D $1\nchar r;\nvoid main() { r = D; }\n");
    add("unterminated string", "const char *s = \"abc;\nvoid main() {}\n");
    add("unterminated char", "char a;\nvoid main() { a = 'x; }\n");
    add("empty char constant", "char a;\nvoid main() { a = ''; }\n");
    add("unterminated comment", "/* never ends\nvoid main() {}\n");
    add("stray string marker", "char a;\nvoid main() { a = @0@; }\n");
    add("stray string marker with index", "const char *s = \"a\";\nconst char *t = @7@;\nvoid main() {}\n");
    add("asm with non-string", "void main() { asm(1); }\n");
    add("break outside loop", "void main() { break; }\n");
    add("continue outside loop", "void main() { continue; }\n");
    add("continue in switch without loop", "char a;\nvoid main() { switch (a) { case 1: continue; } }\n");
    add("continue in switch inside do-while", "char a;\nvoid main() { do { switch (a) { case 1: continue; } a--; } while (a); }\n");
    add("goto undefined label", "void main() { goto nowhere; }\n");
    add("duplicate variable", "char a;\nchar a;\nvoid main() {}\n");
    add("duplicate function", "void f() {}\nvoid f() {}\nvoid main() {}\n");
    add("function named like variable", "char f;\nvoid f() {}\nvoid main() {}\n");
    add("call with too many args", "void f(char a) {}\nvoid main() { f(1, 2); }\n");
    add("call with too few args", "void f(char a, char b) {}\nvoid main() { f(1); }\n");
    add("subscript on scalar", "char a;\nvoid main() { a[1] = 2; }\n");
    add("subscript on X", "void main() { X[1] = 2; }\n");
    add("deref non-pointer", "char a;\nvoid main() { *a = 2; }\n");
    add("address of array element", "char arr[3];\nchar *p;\nvoid main() { p = &arr; }\n");
    add("assign to constant", "const char k = 1;\nvoid main() { k = 2; }\n");
    add("assign to literal", "void main() { 1 = 2; }\n");
    add("assign to call", "void f() {}\nvoid main() { f() = 2; }\n");
    add("increment of literal", "void main() { 1++; }\n");
    add("increment of call", "char f() { return 1; }\nvoid main() { f()++; }\n");
    add("sizeof unknown", "char a;\nvoid main() { a = sizeof(zz); }\n");
    add("sizeof in constant unknown", "const char k = sizeof(zz);\nvoid main() {}\n");
    add("array of size zero", "char arr[0];\nvoid main() {}\n");
    add("array of negative size", "char arr[-1];\nvoid main() {}\n");
    add("array initialiser size mismatch", "const char t[2] = {1, 2, 3};\nvoid main() {}\n");
    add("aligned zero", "aligned(0) const char t[1] = {1};\nvoid main() {}\n");
    add("bank number overflow", "bank99999999999 const char t[1] = {1};\nvoid main() {}\n");
    add("no main", "char a;\n");
    add("main with value", "char main() { return 1; }\n");
    add("return value from void", "void main() { return 1; }\n");
    add("missing return value", "char f() { return; }\nvoid main() { f(); }\n");
    add("recursion", "void f() { f(); }\nvoid main() { f(); }\n");
    add("mutual recursion", "void g();\nvoid f() { g(); }\nvoid g() { f(); }\nvoid main() { f(); }\n");
    add("main calls main", "void main() { main(); }\n");
    add("call interrupt", "void interrupt nmi() {}\nvoid main() { nmi(); }\n");
    add("shift by large constant", "char a;\nvoid main() { a = a << 40; }\n");
    add("constant shift by 40", "const short k = 1 << 40;\nvoid main() {}\n");
    add("constant shift by negative", "const short k = 1 << -1;\nvoid main() {}\n");
    add("constant product overflow", "const short k = 65536 * 65536;\nvoid main() {}\n");
    add("constant sum overflow", "const short k = 2147483647 + 1;\nvoid main() {}\n");
    add("constant min divided by -1", "const char b = (-2147483647 - 1) / -1;\nvoid main() { X = b; }\n");
    add("constant min divided by -1 in an array size", "char t[(-2147483647 - 1) / -1];\nvoid main() { }\n");
    add("folded min divided by -1", "char a;\nvoid main() { a = (-2147483647 - 1) / -1; }\n");
    add("constant min times -1", "const char b = (-2147483647 - 1) * -1;\nchar a;\nvoid main() { a = (-2147483647 - 1) * -1; }\n");
    add("constant min minus 1", "const char b = (-2147483647 - 1) - 1;\nchar a;\nvoid main() { a = (-2147483647 - 1) - 1; }\n");
    add("preprocessor min divided by -1", "#if (-2147483647 - 1) / -1\nchar a;\n#endif\nvoid main() { }\n");
    add("constant negate min", "const short k = -(-2147483647 - 1);\nvoid main() {}\n");
    add("statement constant product overflow", "short s;\nvoid main() { s = 65536 * 65536; }\n");
    add("statement shift overflow", "short s;\nvoid main() { s = 1 << 40; }\n");
    add("csleep(0)", "void main() { csleep(0); }\n");
    add("csleep(11)", "void main() { csleep(11); }\n");
    add("csleep(99999999999)", "void main() { csleep(99999999999); }\n");
    add("case 99999999999", "char a;\nvoid main() { switch (a) { case 99999999999: a = 1; } }\n");
    add("asm size overflow", "void main() { asm(\"NOP\", 99999999999); }\n");
    add("asm size negative", "void main() { asm(\"NOP\", -1); }\n");
    add("local array with initialiser", "void main() { char t[2] = 1; }\n");
    add("local const without value", "void main() { const char k; }\n");
    add("parameter array", "void f(char t[2]) {}\nvoid main() {}\n");
    add("16-bit return type", "short f() { return 1; }\nvoid main() {}\n");
    add("nested function", "void main() { void f() {} }\n");
    add("strobe on scalar", "char a;\nvoid main() { strobe(a); }\n");
    add("load of literal", "void main() { load(5); }\n");
    add("store to literal", "void main() { store(5); }\n");
    add("ternary without else", "char a;\nvoid main() { a = a ? 1; }\n");
    add("colon without question", "char a;\nvoid main() { a = 1 : 2; }\n");
    add("ptr_low wrong mask", "char t[2];\nconst char q = t & 254;\nvoid main() {}\n");
    for st in ["a = p;", "a = p + 1;", "a = *p;", "q = &p;", "a = sizeof(p);", "p = 1;", "p++;", "strobe(p);", "load(p);", "if (p) a = 1;", "X = p;", "g(p);", "a += p;", "switch (p) { case 1: a = 1; }", "a = arr[p];", "a = p ? 1 : 2;", "q = p;", "return p;", "while (p) a++;"] {
        add(&format!("prototype-only function used as a value: {}", st), &format!("char p();\nvoid g(char v) {{ X = v; }}\nchar a; char arr[4]; char *q;\nvoid main() {{ {} }}\n", st));
    }
    add("undef then use of a later macro", "#define A 1\n#define B 2\n#undef A\nvoid main() { X = B; }\n");
    add("undef then reuse of the name", "#define A 1\n#undef A\nchar A;\nvoid main() { A = 3; }\n");
    add("undef of the middle one of three", "#define A 1\n#define B 2\n#define C 3\n#undef B\nvoid main() { X = A + C; }\n");
    add("undef of an unknown name", "#undef NOPE\nvoid main() { }\n");
    add("undef twice", "#define A 1\n#undef A\n#undef A\nvoid main() { }\n");
    for c in ["Y && 1", "Y || 0", "1 && Y", "0 || Y", "Y && 0", "Y || 1", "!Y && 1", "X && Y && 1", "X == 1 && 1", "X || Y || 0", "1", "0"] {
        for form in ["X = ({}) ? 2 : 3;", "if (({}) ? X : Y) a = 1;", "a = (({}) ? 2 : 3) + 1;", "if ({}) a = 1; else a = 2;", "while ({}) { a++; break; }", "a = {};", "a = !({});"] {
            add(&format!("constant mixed into a logical condition: {}", form.replace("{}", c)), &format!("char a;\nvoid main() {{ {} }}\n", form.replace("{}", c)));
        }
    }
    add("shift of X by 8 plus constant", "char x;\nvoid main() { x = (X >> 8) + 1; }\n");
    add("shift of Y by 8 minus constant", "char x;\nvoid main() { x = (Y >> 8) - 1; }\n");
    add("shift of a prototype-only function by 8 plus constant", "void f();\nchar x;\nvoid main() { x = (f >> 8) + 1; }\n");
    add("array of function pointers", "void a() {}\nvoid (*tab[1])() = {a}\nvoid main() { }\n");
    add("local array of negative size", "void main() { short a[-1]; }\n");
    add("local array of huge size", "void main() { short a[1073741824]; a[X] = 1; }\n");
    add("pointer offset overflow", "const char *p = \"a\"; char x;\nvoid main() { x = p + 2147483647 + 1; }\n");
    add("pointer offset underflow", "const char *p = \"a\"; char x;\nvoid main() { x = p - 2147483647 - 2; }\n");
    add("pointer high byte offset overflow", "const char *p = \"a\"; char x;\nvoid main() { x = (p >> 8) + 100000000; }\n");
    add("pointer high byte negative offset overflow", "const char *p = \"a\"; char x;\nvoid main() { x = (p >> 8) - 100000000; }\n");
    add("assignment to an array", "char arr[4];\nvoid main() { arr = 5; }\n");
    add("increment of an array", "char arr[4];\nvoid main() { arr++; arr--; arr += 2; }\n");
    add("shift of an array", "char arr[4];\nvoid main() { arr <<= 1; }\n");
    add("assignment to a table", "const char t[2] = {1, 2};\nvoid main() { t = 2; }\n");
    add("recursive inline function", "char a, b;\ninline char f(char n) { if (n == 0) return 0; return f(n - 1) + 1; }\nvoid main() { a = f(b); }\n");
    add("mutually recursive inline functions", "char a;\ninline void g();\ninline void f() { if (a) g(); }\ninline void g() { a--; f(); }\nvoid main() { f(); }\n");
    add("variable named like a literal table", "char cctmp0;\nchar *p, *q;\nvoid main() { p = \"ab\"; q = \"cd\"; }\n");
    add("multi-byte character constants on a statement line", "char a;\nvoid main() {\n a = '€' + '€';\n}\n");
    add("multi-byte characters in a comment after a statement", "char a;\nvoid main() {\n a = 1; /* ééééé€€€ */ a = 2;\n a = 3; // €\n}\n");
    add("negative size of inline assembly", "char a;\nvoid main() { a = 1; asm(\"NOP\", -1); }\n");
    add("huge size of inline assembly", "char a;\nvoid main() { a = 1; asm(\"NOP\", 2147483647); asm(\"NOP\", 2147483647); asm(\"NOP\", 2); }\n");
    add("store of a void call", "char a;\nvoid f() { a = 1; }\nvoid main() { store(f()); }\n");
    add("load of a void call", "char a;\nvoid f() { a = 1; }\nvoid main() { load(f()); }\n");
    add("strobe with a subscript", "char * const PF = 0x0d;\nvoid main() { strobe(PF[1]); strobe(PF[X]); }\n");
    add("constant shift overflow", "const char t[2] = { 0x40000000 << 1, 1 << 31 };\nchar a;\nvoid main() { a = 0x40000000 << 2; }\n");
    add("csleep with a far DUMMY", "char * const DUMMY = 0x1000;\nvoid main() { csleep(3); csleep(5); csleep(9); csleep(10); }\n");
    add("3E call into another bank without ROM_SELECT", "#define __3E__\nchar a;\nbank1 void f() { a = 1; }\nvoid main() { f(); }\n");
    add("3E+ call into another bank", "#define __3E_PLUS__\nchar a;\nbank1 void f() { a = 1; }\nbank2 void g() { f(); }\nvoid main() { f(); g(); }\n");
    add("bank call from a banked function", "#define __3E__\nchar a;\nchar * const ROM_SELECT = 0x3f;\nbank1 void f() { a = 1; }\nbank2 void g() { f(); }\nvoid main() { g(); }\n");
    add("do without a blank", "char a;\nvoid main() { do{ a++; } while (a < 3); do a--; while (a); }\n");
    add("directives separated by tabs", "#define\tN 3\n#ifdef\tN\nchar a;\n#endif\n#if\tN == 3\nchar c;\n#elif\t1\nchar d;\n#endif\n#undef\tN\nvoid main() { a = 1; c = 3; }\n");
    add("numbers in #if", "#if 2\nchar a;\n#endif\n#if 0x10 == 16\nchar b;\n#endif\n#if 1L\nchar c;\n#endif\n#if 99999999999999999999\nchar d;\n#endif\nvoid main() { }\n");
    add("function named like a literal table", "void cctmp0() { }\nchar *p;\nvoid main() { p = \"ab\"; cctmp0(); }\n");
    add("local named like a mangled local", "char g;\nvoid main() { { char i; char i_0; i = 1; i_0 = 2; } { char i; i = 3; } g = 1; }\n");
    add("unknown directive in a skipped region", "#if 0\n#pragma once\n#unknown\n#endif\nvoid main() { }\n");
    add("malformed directives in a skipped region", "#if 0\n#if\n#ifdef\n#elif\n#else garbage\n#define\n#include\n#endif\nvoid main() { }\n");
    add("directive keyword defined as a macro", "#define endif 1\n#if 1\nchar a;\n#endif\nvoid main() { }\n");
    add("paste followed by identifier characters", "#define cat(x) x##1\nchar v1;\nvoid main() { X = cat(v); }\n");
    add("macro parameter list with spaces", "#define add(a , b) a+b\n#define sub( a,b ) (a-b)\nvoid main() { X = add(1,2); Y = sub(3,1); }\n");
    add("character constant holding a quote", "char a;\nvoid main() { a = '\"'; }\n");
    add("escaped backslash then escaped quote", "char *s;\nvoid main() { s = \"x\\\\\\\"y\"; }\n");
    add("non-ASCII character constants before an error", "char a;\nvoid main() {\n  a = 'é' + 'é' + 'é' + 'é'; a = 1;\n  a = 2;\n  a = zz;\n}\n");
    add("long line with a multi-byte character at the listing cut", &format!("char i;\nvoid main() {{ {}{}i = 'é'; i = 2; i = 3; }}\n", "i = 1; ".repeat(26), "i = 10; ".repeat(6)));
    add("long line of multi-byte characters", &format!("char i;\nvoid main() {{ {} }}\n", "i = 'é'; ".repeat(60)));
    add("do without space", "char i;\nvoid main() { do{ i++; }while(i<3); }\n");
    add("pointer declarator glued to the type", "char*p;\nvoid main() { }\n");
    add("tab after a directive name", "#define\tONE 1\n#ifdef\tONE\nchar a;\n#endif\nvoid main() { }\n");
    add("indented include", "  #include \"c16_inc_plain.h\"\nvoid main() { inc_a = 1; }\n");
    add("block comment opened on a define line", "#define X 1 /* start\n end */ + 2\nchar a;\nvoid main() { a = X; }\n");
    add("nested call overwriting parameters", "char r;\nchar f(char a, char b) { return a - b; }\nvoid main() { r = f(9, f(5, 1)); }\n");
    add("undef in the second block of a hundred macros", &{
        let mut t = String::new();
        for k in 0..=100 {
            t.push_str(&format!("#define M{} {}\n", k, k));
        }
        t.push_str("#undef M100\n#undef M3\nchar x;\nvoid main() { x = M3; }\n");
        t
    });
    add("undef of the last of two hundred and one macros then use of the others", &{
        let mut t = String::new();
        for k in 0..=200 {
            t.push_str(&format!("#define M{} {}\n", k, k % 100));
        }
        t.push_str("#undef M200\n#undef M150\n#undef M99\nchar x;\nvoid main() { x = M3 + M101 + M199; }\n");
        t
    });
    add("compound shift of a 16-bit array element", "short a[4];\nvoid main() { a[Y] <<= 1; a[Y] >>= 1; a[X] <<= 1; a[1] >>= 2; }\n");
    add("inline function with a sign extension", "signed char c; short s;\ninline void f() { s = c; }\nvoid main() { f(); f(); }\n");
    add("inline function with a signed comparison", "signed char c, d; char r;\ninline void f() { if (c < d) r = 1; if (c <= d) r = 2; if (c > 0) r = 3; }\nvoid main() { f(); }\n");
    add("inline function with every kind of branch", "signed char c; unsigned char u, r; short s;\ninline char f(char v) { if (u < v) r = 1; if (u >= v) r = 2; if (c < 0) r = 3; if (c >= 0) r = 4; if (s == 1) r = 5; while (u) u--; return r; }\nvoid main() { r = f(3); }\n");
    add("conditional continue in switch without loop", "char a, c;\nvoid main() { switch (a) { case 1: if (c) continue; } }\n");
    add("conditional break in switch without loop", "char a, c;\nvoid main() { switch (a) { case 1: if (c) break; a = 2; } }\n");
    add("conditional continue in nested switch in loop", "char a, c;\nvoid main() { while (a) { switch (a) { case 1: switch (c) { case 2: if (c) continue; } } a--; } }\n");
    add("macro doubling itself", "#define A A A\nchar a;\nvoid main() { a = A; }\n");
    add("macro tripling itself with operator", "#define A (A+A+A)\nchar a;\nvoid main() { a = A; }\n");
    add("function-like macro doubling itself", "#define F(x) F(x) F(x)\nchar a;\nvoid main() { a = F(1); }\n");
    add("mutually doubling macros", "#define B 1\n#define A B B\n#define B A A\nchar a;\nvoid main() { a = A; }\n");
    add("macro doubling itself used in #if", "#define A A A\n#if A\nchar a;\n#endif\nvoid main() { }\n");
    add("sizeof of negative-size array", "char arr[-1];\nchar a;\nvoid main() { a = sizeof(arr); }\n");
    add("sizeof of negative-size array in constant", "char arr[-1];\nconst char k = sizeof(arr);\nvoid main() { }\n");
    add("sizeof of huge array", "char arr[2147483647];\nconst short k = sizeof(arr) + 1;\nvoid main() { }\n");
    add("short array of huge size", "short arr[1073741824];\nconst short k = sizeof(arr);\nvoid main() { }\n");
    add("statement on the last line", "char a;\nvoid main() {\n a = 1; }\n");
    add("statement on the last line, no newline", "char a;\nvoid main() {\n a = 1; }");
    add("whole program on one line", "char a; void main() { a = 1; if (a) a = 2; }\n");
    add("last line is a comment after the statement", "char a;\nvoid main() {\n a = 1; } // end");
    add("include then statement on last line", "#include \"c16_inc_plain.h\"\nvoid main() {\n inc_a = 1; }\n");
    raw.push(("non-UTF-8 bytes".into(), b"char a;\nvoid main() { a = '\xff'; }\n// \xc3\x28 \xfe\n".to_vec()));
    raw.push(("NUL bytes".into(), b"char a;\x00\nvoid main() { a = 1; }\n".to_vec()));
    add("CR only line ends", "char a;\rvoid main() { a = 1; }\r");
    add("very long line", &format!("char a;\nvoid main() {{ a = 1{}; }}\n", " + 1".repeat(3000)));
    add("very long identifier", &format!("char {};\nvoid main() {{}}\n", "a".repeat(20000)));
    for n in [10usize, 100, 1000, 10000] {
        add(&format!("parentheses depth {}", n), &format!("char a;\nvoid main() {{ a = {}1{}; }}\n", "(".repeat(n), ")".repeat(n)));
        add(&format!("blocks depth {}", n), &format!("char a;\nvoid main() {{ {} a = 1; {} }}\n", "{".repeat(n), "}".repeat(n)));
        add(&format!("unary depth {}", n), &format!("char a;\nvoid main() {{ a = {}a; }}\n", "~".repeat(n)));
        add(&format!("else-if chain {}", n), &format!("char a;\nvoid main() {{ {} a = 0; }}\n", "if (a == 1) a = 2; else ".repeat(n)));
        add(&format!("constant parentheses depth {}", n), &format!("const char k = {}1{};\nvoid main() {{}}\n", "(".repeat(n), ")".repeat(n)));
        add(&format!("nested #if depth {}", n), &format!("{}char a;\n{}void main() {{}}\n", "#if 1\n".repeat(n), "#endif\n".repeat(n)));
        add(&format!("macro chain {}", n.min(1000)), &{
            let m = n.min(1000);
            let mut s = String::from("#define M0 1\n");
            for k in 1..m {
                s.push_str(&format!("#define M{} M{}\n", k, k - 1));
            }
            s.push_str(&format!("char r;\nvoid main() {{ r = M{}; }}\n", m - 1));
            s
        });
    }
    for (name, src) in raw {
        v.push(Input { family: "directed", name, src, opts: vec!["-O1"] });
    }
    for d in ["-DA(=1", "-DA[=1", "-DA*=1", "-DA.B=1", "-D=1", "-DA==", "-D", "-DA=(", "-DA=A", "-DA=A A", "-D1=2", "-DA B=3"] {
        v.push(Input { family: "directed", name: format!("command-line definition {}", d), src: b"char x;\nvoid main() { x = A; }\n".to_vec(), opts: vec!["-O1", d] });
    }
    // every directed input again with the listing option and without optimisation
    let again: Vec<Input> = v.iter().map(|i| Input { family: "directed", name: format!("{} [-O0 --insert-code]", i.name), src: i.src.clone(), opts: vec!["-O0", "--insert-code"] }).collect();
    v.extend(again);
    v
}

pub fn mutants(tier: Tier) -> Vec<Input> {
    let mut v = Vec::new();
    let progs: Vec<&str> = if tier == Tier::Quick { CORPUS.iter().step_by(3).cloned().collect() } else { CORPUS.to_vec() };
    let repl: Vec<&str> = if tier == Tier::Quick { REPL.iter().step_by(3).cloned().collect() } else { REPL.to_vec() };
    for (pi, p) in progs.iter().enumerate() {
        let toks = tokens(p);
        let idxs: Vec<usize> = (0..toks.len()).filter(|i| !toks[*i].trim().is_empty()).collect();
        let join = |t: &Vec<String>| t.concat();
        v.push(Input { family: "corpus", name: format!("p{} unchanged", pi), src: p.as_bytes().to_vec(), opts: vec!["-O1"] });
        v.push(Input { family: "corpus", name: format!("p{} unchanged -O0 --insert_code", pi), src: p.as_bytes().to_vec(), opts: vec!["-O0", "--insert-code"] });
        {
            // the closing brace pulled up to the last statement's line; with and without the final newline
            let t = p.trim_end();
            if let Some(k) = t.rfind('\n') {
                let joined = format!("{} {}", &t[..k], &t[k + 1..]);
                for (nm, src) in [("last line joined", format!("{}\n", joined)), ("last line joined, no final newline", joined.clone()), ("no final newline", t.to_string())] {
                    for opts in [vec!["-O1"], vec!["-O0", "--insert-code"], vec!["-O1", "--insert-code"]] {
                        v.push(Input { family: "corpus", name: format!("p{} {} {:?}", pi, nm, opts), src: src.clone().into_bytes(), opts });
                    }
                }
            }
        }
        for (n, i) in idxs.iter().enumerate() {
            let mut t = toks.clone();
            t.remove(*i);
            v.push(Input { family: "mut.delete", name: format!("p{} delete token {} ({:?})", pi, n, toks[*i]), src: join(&t).into_bytes(), opts: vec!["-O1"] });
            let mut t = toks.clone();
            t.insert(*i, toks[*i].clone());
            v.push(Input { family: "mut.duplicate", name: format!("p{} duplicate token {} ({:?})", pi, n, toks[*i]), src: join(&t).into_bytes(), opts: vec!["-O1"] });
            if n + 1 < idxs.len() {
                let mut t = toks.clone();
                t.swap(*i, idxs[n + 1]);
                v.push(Input { family: "mut.swap", name: format!("p{} swap tokens {} and {}", pi, n, n + 1), src: join(&t).into_bytes(), opts: vec!["-O1"] });
            }
            for r in &repl {
                if *r == toks[*i] {
                    continue;
                }
                let mut t = toks.clone();
                t[*i] = r.to_string();
                v.push(Input { family: "mut.replace", name: format!("p{} replace token {} ({:?}) by {:?}", pi, n, toks[*i], r), src: join(&t).into_bytes(), opts: vec!["-O1"] });
            }
        }
        // truncations (every prefix ending at a token boundary)
        for (n, i) in idxs.iter().enumerate() {
            let t: Vec<String> = toks[..*i].to_vec();
            v.push(Input { family: "mut.truncate", name: format!("p{} truncated before token {}", pi, n), src: join(&t).into_bytes(), opts: vec!["-O1"] });
        }
    }
    v
}

pub fn inputs(tier: Tier) -> Vec<Input> {
    let mut v = directed();
    v.extend(mutants(tier));
    // every valid program of the F2 control family with one character deleted at the end (cheap breadth)
    let _ = gen2::CONDS;
    v
}

pub fn judge(inp: &Input) -> CaseOutcome {
    let ident = format!("C16|{}|{}|{}", inp.family, inp.opts.join(" "), String::from_utf8_lossy(&inp.src));
    let mut o = CaseOutcome::new(ident.clone());
    let mut src_bytes = inp.src.clone();
    if let Ok(t) = std::str::from_utf8(&inp.src) {
        if t.contains("c16_inc_plain.h") {
            let path = format!("{}/c16_inc_plain_{}.h", crate::engine::run_dir(), std::process::id());
            let _ = std::fs::write(&path, "char inc_a;");
            src_bytes = t.replace("c16_inc_plain.h", &path).into_bytes();
        }
    }
    let (out, _) = drv::compile_src(&src_bytes, &inp.opts);
    let text = String::from_utf8_lossy(&inp.src).to_string();
    let nlines = text.split('\n').count() as u32;
    let shown: String = if text.len() > 600 { format!("{}... ({} bytes)", &text.chars().take(600).collect::<String>(), text.len()) } else { text.clone() };
    o.evals = 1;
    match out {
        Outcome::Ok(_) => {
            o.count("accepted", 1);
            o.outcomes.push(hash64("ok"));
        }
        Outcome::Err(e) => {
            o.count(&format!("err:{}", e.kind), 1);
            o.outcomes.push(hash64(&format!("{}:{}", e.kind, e.msg.chars().take(30).collect::<String>())));
            o.nontrivial = true;
            if e.kind == "Syntax" || e.kind == "Compiler" {
                let inside = e.filename == "in.c" && e.line >= 1 && e.line <= nlines.max(1);
                if !inside {
                    o.fail(
                        format!("badloc:{}:{}", e.kind, e.msg.chars().take(40).collect::<String>()),
                        "error-location-outside-input",
                        format!("{} [{}]\n--- error: {} on line {} of {:?} (input has {} lines): {}\n--- input\n{}", inp.family, inp.name, e.kind, e.line, e.filename, nlines, e.msg, shown),
                    );
                }
            }
        }
        Outcome::Panic { loc, msg } => {
            o.nontrivial = true;
            // key: innermost cc6502 function + panic message class (stable when lines shift)
            let func = loc.split(" in ").nth(1).unwrap_or("?").to_string();
            let mclass: String = msg.chars().take(60).map(|c| if c.is_ascii_digit() { '#' } else { c }).collect();
            o.fail(format!("panic:{}:{}", func, mclass), "panic", format!("{} [{}]\n--- panic at {}: {}\n--- input\n{}", inp.family, inp.name, loc, msg.chars().take(200).collect::<String>(), shown));
        }
    }
    o.sample = json!({"family": inp.family, "name": inp.name, "input": shown, "options": inp.opts});
    o
}

pub struct C16 {
    q: OnceLock<Vec<Input>>,
    t: OnceLock<Vec<Input>>,
    cq: OnceLock<Vec<crate::corpus::CaseSpec>>,
    ct: OnceLock<Vec<crate::corpus::CaseSpec>>,
}

impl C16 {
    pub fn new() -> C16 {
        C16 { q: OnceLock::new(), t: OnceLock::new(), cq: OnceLock::new(), ct: OnceLock::new() }
    }
    /// the valid programs of the shared executable corpus: compiling them must not crash either
    fn corpus(&self, tier: Tier) -> &Vec<crate::corpus::CaseSpec> {
        match tier {
            Tier::Quick => self.cq.get_or_init(|| crate::corpus::exec_cases(tier)),
            Tier::Thorough => self.ct.get_or_init(|| crate::corpus::exec_cases(tier)),
        }
    }
    fn corpus_input(&self, tier: Tier, k: usize) -> Input {
        let case = self.corpus(tier)[k].build();
        let mut opts: Vec<&'static str> = vec![if k % 2 == 0 { "-O1" } else { "-O0" }];
        for o in &case.extra_opts {
            opts.push(match o.as_str() {
                "-D__3E__" => "-D__3E__",
                "-D__3E_PLUS__" => "-D__3E_PLUS__",
                "--fsigned_char" => "--fsigned_char",
                _ => "-v",
            });
        }
        Input { family: "exec-corpus", name: case.family.clone(), src: case.source().into_bytes(), opts }
    }
    fn inp(&self, tier: Tier) -> &Vec<Input> {
        match tier {
            Tier::Quick => self.q.get_or_init(|| inputs(tier)),
            Tier::Thorough => self.t.get_or_init(|| inputs(tier)),
        }
    }
}

impl Check for C16 {
    fn prop(&self) -> &'static str {
        "C16"
    }
    fn level(&self) -> &'static str {
        "fault_enumeration"
    }
    fn rule(&self) -> String {
        "Inputs: (i) every single-token mutation of a corpus of 33 small valid programs covering all statement kinds and preprocessor lines: delete, duplicate, swap with neighbour, replace by each token of a 40-token alphabet (keywords, operators, brackets, out-of-range literals, @0@), and every truncation at a token boundary; (ii) ~400 directed inputs, each also under -O0 --insert-code, from the property's list (empty file, out-of-range literals in every radix and position, --1, constant /0, void values used, undeclared and prototype-only names, *= /=, infix ~ !, unbalanced directives, self- and mutually-referential macros, nesting depth 10..10000, non-UTF-8, NUL); (iii) every valid program of the shared executable corpus (compile only). Each runs in a worker process under catch_unwind with a per-input watchdog and RLIMIT_AS; aborts and hangs are attributed through a progress file and confirmed by a solo re-run. Oracle: compile() returns Ok or Err; a Syntax/Compiler error names in.c and a line inside the input; no panic, abort, stack overflow or time-out. Failures are keyed by panic location (file:line), so a new panic site is a new violation. Non-trivial = input rejected or crashing; distinct outcomes = distinct (error kind, message prefix).".into()
    }
    fn assumptions(&self) -> Vec<String> {
        vec!["mutation distance 1 from the corpus; directed inputs as listed".into(), "time-out 10 s per input (compile() of these inputs normally takes < 1 ms)".into()]
    }
    fn n_cases(&self, tier: Tier) -> usize {
        self.inp(tier).len() + self.corpus(tier).len()
    }
    fn case_timeout_s(&self) -> u64 {
        10
    }
    fn case_ident(&self, tier: Tier, idx: usize) -> String {
        let n = self.inp(tier).len();
        if idx >= n {
            let i = self.corpus_input(tier, idx - n);
            return format!("C16|{}|{}|{}", i.family, i.opts.join(" "), String::from_utf8_lossy(&i.src));
        }
        let i = &self.inp(tier)[idx];
        format!("C16|{}|{}|{}", i.family, i.opts.join(" "), String::from_utf8_lossy(&i.src))
    }
    fn run_case(&self, tier: Tier, idx: usize) -> CaseOutcome {
        let n = self.inp(tier).len();
        if idx >= n {
            return judge(&self.corpus_input(tier, idx - n));
        }
        judge(&self.inp(tier)[idx])
    }
    fn bounds(&self, tier: Tier) -> Value {
        let mut fam = std::collections::BTreeMap::new();
        for c in self.inp(tier) {
            *fam.entry(c.family).or_insert(0u64) += 1;
        }
        json!({"families": fam, "valid_programs_of_the_executable_corpus": self.corpus(tier).len(), "corpus_programs": if tier == Tier::Quick { 10 } else { 30 }, "replacement_alphabet": if tier == Tier::Quick { 14 } else { 40 }})
    }
}
