//! C18 — timing and hardware-access statements are emitted exactly.

use crate::asm65::LineKind;
use crate::cref::{self, Dialect, Event};
use crate::emu65::{self, AccKind, Stop};
use crate::engine::{case_key, hash64, CaseOutcome, Check, Status, Tier};
use crate::exec::{self, PrepFail, RefMachine};
use crate::gen2::case_from_text;
use crate::sem::{self, SemCase};
use serde_json::{json, Value};
use std::sync::OnceLock;

pub const DECL: &str = "unsigned char a, b, c, r, sav; short s; unsigned char arr[4];\nchar *const M1 = 0x3a;\nchar *const M2 = 0x3b;\nchar *const R1 = 0x3c;\nchar *const R2 = 0x3d;\nchar *const R3 = 0x3e;\nchar *const RA = 0x280;\nchar *const HW = 0x30;\nvoid f() { c = c + 1; }\n";

pub const REGS: [(&str, u16); 6] = [("M1", 0x3a), ("M2", 0x3b), ("R1", 0x3c), ("R2", 0x3d), ("R3", 0x3e), ("RA", 0x280)];

/// HW[0..8] is a block of registers reached with a subscript: every access to it is logged too
pub const HW_RANGE: std::ops::Range<u16> = 0x30..0x38;
fn is_logged(a: u16) -> bool {
    REGS.iter().any(|r| r.1 == a) || HW_RANGE.contains(&a)
}

pub const CONTEXT: [&str; 16] = [
    "", "a = 0;", "a = b;", "X = a;", "a++;", "X++;", "Y--;", "a += b;", "arr[X] = a;", "a = arr[X];", "if (a) b = 1;", "if (X == 0) a = 2;", "s++;", "f();", "r = a == b;", "a <<= 1;",
];

pub const EXPLICIT: [&str; 12] = [
    "load(*R1);", "store(*R2);", "strobe(R3);", "load(*R2);", "store(*R1);", "strobe(RA);", "load(*RA);", "store(*RA);", "asm(\"CLV\", 1);", "asm(\"BIT $3c\", 2);", "csleep(4);", "csleep(7);",
];

pub const ORDINARY: [&str; 10] = ["a = 0;", "a = b;", "X = a;", "a++;", "b += a;", "arr[X] = a;", "a = arr[X];", "if (a) b = 1;", "if (a == b) r = 1; else r = 2;", "f();"];

pub enum TCase {
    /// csleep(n) between two marker strobes, with context statements before and after
    Sleep { n: i32, before: usize, after: usize },
    /// several csleeps in a row between the markers
    SleepSeq(Vec<i32>),
    /// sleep values that must be rejected
    SleepReject(i32),
    /// sequence of statements (source text) checked for its ordered explicit-access trace
    Trace(String),
    /// a region made of explicit statements only, between two marker strobes, after a context that makes
    /// them look redundant: it must take the same number of cycles at every optimisation level
    Region(usize, String),
}

pub const REGION_CTX: [&str; 7] = ["", "a = 0; X = 3;", "X = a + b;", "Y = a & 3;", "a = 5;", "X = a; Y = a;", "b = a;"];
pub const REGION_STMTS: [&str; 15] = ["load(X);", "load(Y);", "store(X);", "store(Y);", "load(0);", "load(5);", "load(a);", "store(b);", "strobe(R3);", "load(*R1);", "store(*R2);", "csleep(4);", "csleep(3);", "csleep(5);", "csleep(10);"];

pub fn cases(tier: Tier) -> Vec<TCase> {
    let mut v = Vec::new();
    for n in 2..=10 {
        for b in 0..CONTEXT.len() {
            for a in 0..CONTEXT.len() {
                if tier == Tier::Quick && b != 0 && a != 0 && (a + b + n as usize) % 3 != 0 {
                    continue;
                }
                v.push(TCase::Sleep { n, before: b, after: a });
            }
        }
    }
    for n1 in 2..=10 {
        for n2 in 2..=10 {
            v.push(TCase::SleepSeq(vec![n1, n2]));
        }
    }
    for n1 in [5, 7, 9, 10] {
        for n2 in [2, 5, 7, 10] {
            for n3 in [3, 7, 9] {
                v.push(TCase::SleepSeq(vec![n1, n2, n3]));
            }
        }
    }
    for n in [-1, 0, 1, 11, 12, 100, 255, 256] {
        v.push(TCase::SleepReject(n));
    }
    // regions of explicit statements only
    {
        let n = REGION_STMTS.len();
        let mut seqs: Vec<Vec<usize>> = Vec::new();
        for i in 0..n {
            seqs.push(vec![i]);
            for j in 0..n {
                seqs.push(vec![i, j]);
                if tier == Tier::Thorough {
                    for k in 0..n {
                        seqs.push(vec![i, j, k]);
                    }
                }
            }
        }
        // the look-ahead rules of the optimiser need a load after a store after a load
        for (i, j, k) in [(4usize, 8usize, 9usize), (4, 8, 6), (5, 10, 9), (4, 7, 6), (6, 7, 6), (0, 2, 0), (1, 3, 1), (9, 10, 9)] {
            seqs.push(vec![i, j, k]);
        }
        for c in 0..REGION_CTX.len() {
            for sq in &seqs {
                let text: Vec<&str> = sq.iter().map(|i| REGION_STMTS[*i]).collect();
                v.push(TCase::Region(c, text.join(" ")));
            }
        }
    }
    // sequences of length <= 3 with at least one explicit statement
    let mut all: Vec<&str> = EXPLICIT.to_vec();
    all.extend_from_slice(&ORDINARY);
    let ne = EXPLICIT.len();
    for i in 0..all.len() {
        if i < ne {
            v.push(TCase::Trace(all[i].to_string()));
        }
        for j in 0..all.len() {
            if i < ne || j < ne {
                v.push(TCase::Trace(format!("{} {}", all[i], all[j])));
            }
            for k in 0..all.len() {
                let n_exp = (i < ne) as usize + (j < ne) as usize + (k < ne) as usize;
                if n_exp == 0 {
                    continue;
                }
                if tier == Tier::Quick && !(n_exp >= 2 && (i + j + k) % 2 == 0) {
                    continue;
                }
                v.push(TCase::Trace(format!("{} {} {}", all[i], all[j], all[k])));
            }
        }
    }
    // explicit statements under control flow
    for body in [
        "if (a) load(*R1); else strobe(R3);",
        "if (a) { load(*R1); store(*R2); } strobe(R3);",
        "for (X = 0; X < 3; X++) { strobe(R3); }",
        "for (X = 0; X < 3; X++) { load(*R1); store(*R2); }",
        "while (a) { load(*R1); a--; }",
        "do { strobe(R3); csleep(3); strobe(R3); a--; } while (a);",
        "load(*R1); load(*R1);",
        "store(*R2); store(*R2);",
        "strobe(R3); strobe(R3); strobe(R3);",
        "load(*R1); a = 0; load(*R1);",
        "a = 5; store(*R2); a = 5; store(*R2);",
        "load(*R1); store(*R1); load(*R1);",
        "switch (a) { case 1: strobe(R3); break; case 2: load(*R1); default: store(*R2); }",
        "csleep(7); csleep(7);",
        "csleep(7); csleep(7); csleep(7);",
        "csleep(2); csleep(2);",
        "strobe(M1); csleep(7); csleep(7); strobe(M2);",
        "strobe(M1); csleep(5); csleep(5); strobe(M2);",
        "strobe(M1); csleep(9); csleep(3); csleep(10); strobe(M2);",
        "load(a); store(b);",
        "load(*R1); a = 0;",
        "load(*R1); a = b;",
        "load(*R1); X = 0; load(*R1); Y = 0;",
        "X = a; load(X); store(*R2);",
        "asm(\"CLV\", 1); asm(\"CLV\", 1);",
        "a = 1; asm(\"CLV\", 1); a = 1;",
        // explicit statements inside functions that are inlined into a context that makes them look redundant
        "@fn inline void hl() { load(*R1); strobe(R3); csleep(7); csleep(7); } @main a = 0; hl(); b = 1;",
        "@fn inline void hl() { load(*R1); load(*R1); } @main load(*R1); hl(); hl();",
        "@fn inline void hs() { store(*R2); store(*R2); } @main a = 5; store(*R2); hs(); a = 5; hs();",
        "@fn inline void hk() { strobe(R3); } @main strobe(R3); hk(); hk(); strobe(R3);",
        "@fn inline void hc() { csleep(7); } @main strobe(M1); hc(); hc(); csleep(7); strobe(M2);",
        "@fn inline void ha() { asm(\"CLV\", 1); load(*RA); } @main ha(); ha();",
        "@fn void hn() { load(*R1); strobe(R3); } @main hn(); load(*R1); hn();",
        "@fn inline void hi2() { if (a) load(*R1); else strobe(R3); } @main hi2(); a = 0; hi2();",
        "@fn inline void h1() { load(*R1); } inline void h2() { h1(); store(*R2); h1(); } @main h2(); h2();",
        // the operand of an explicit access is the one the source names: subscripts with side effects
        // or that need a register to be computed
        "load(HW[X++]); store(*R2);",
        "load(HW[X]); X++; store(*R2);",
        "load(HW[X--]); store(HW[X]);",
        "X = 1; load(HW[X++]); load(HW[X++]); store(HW[X]);",
        "load(HW[X++]); X++; load(HW[X]);",
        "Y = 1; load(HW[Y++]); store(HW[Y]);",
        "Y = 1; store(HW[Y++]); store(HW[Y--]); store(HW[Y]);",
        "load(HW[a]); store(*R2);",
        "a = 3; load(HW[a]); store(HW[a]);",
        "a = 2; load(HW[a++]); store(HW[a]);",
        "Y = 0; a = 3; load(HW[a]); store(HW[Y]);",
        "X = 0; b = 2; store(HW[b]); load(HW[X]);",
        "load(HW[1]); store(HW[2]); load(HW[0]);",
        "X = 1; load(HW[X]); load(HW[X]); a = 0; load(HW[X]);",
        "@fn inline void hx() { load(HW[X++]); store(*R2); } @main X = 0; hx(); hx();",
    ] {
        v.push(TCase::Trace(body.to_string()));
    }
    // an explicit load repeated after something that moved the flags away from A, then every shape of
    // following code the optimiser looks ahead into (a store, a store then an indexed load, a compare...)
    for first in ["load(*R1);", "load(a);", "load(5);", "load(*RA);"] {
        for mid in ["X++;", "X = 2;", "Y--;", "b++;", "Y = 1;"] {
            for tail in [
                "store(*R2);", "store(*R2); Y = arr[X];", "store(*R2); X = arr[Y];", "store(*R2); b = arr[X];", "store(b); Y = arr[X];", "strobe(R3); Y = arr[X];", "X = arr[Y];", "b = arr[X];", "if (a) b = 1;", "store(*R2); X = 1;",
                "store(*R2); b = 2;", "if (a == 3) b = 1;",
            ] {
                v.push(TCase::Trace(format!("{} {} {} {}", first, mid, first, tail)));
            }
        }
    }
    v
}

fn mk_case(body: &str) -> SemCase {
    // "@fn <function definitions> @main <body>" puts functions before main
    let (fns, body) = match body.strip_prefix("@fn ") {
        Some(rest) => {
            let mut it = rest.splitn(2, " @main ");
            let f = it.next().unwrap_or("").to_string();
            (format!("{}\n", f), it.next().unwrap_or("").to_string())
        }
        None => (String::new(), body.to_string()),
    };
    let src = format!("{}{}void main()\n{{\n{}\n}}\n", DECL, fns, body);
    let small: Vec<(&str, &[i32])> = vec![("a", &[0, 1, 2, 0x80, 255]), ("b", &[0, 1, 0xfe]), ("c", &[7]), ("r", &[0]), ("sav", &[0]), ("X", &[0, 1, 2]), ("Y", &[0, 2, 3]), ("s", &[0, 0xff])];
    let mut c = case_from_text("C18", &src, &small, vec!["timing"], 60);
    c.logged = REGS.iter().map(|r| r.0.to_string()).collect();
    c
}

fn prep_tag(e: &PrepFail) -> String {
    match e {
        PrepFail::Rejected(er) => format!("rejected: {}", er.msg),
        PrepFail::Panic { loc, .. } => format!("panic@{}", loc),
        PrepFail::AsmErrors(er, _) => format!("asm-error: {}", er[0]),
        PrepFail::Layout(_) => "layout".into(),
        PrepFail::Bind(b) => format!("bind: {}", b),
    }
}

const LEVELS: [&str; 4] = ["-O0", "-O1", "-O2", "-O3"];

fn run_sleep(ns: &[i32], before: usize, after: usize) -> CaseOutcome {
    let n: i32 = ns.iter().sum();
    let sleeps: String = ns.iter().map(|k| format!("csleep({});", k)).collect::<Vec<_>>().join(" ");
    let body = format!("{} strobe(M1); {} strobe(M2); store(sav); {}", CONTEXT[before], sleeps, CONTEXT[after]);
    let body_ref = format!("{} strobe(M1); strobe(M2); store(sav); {}", CONTEXT[before], CONTEXT[after]);
    let case = mk_case(&body);
    let case_ref = mk_case(&body_ref);
    let ident = format!("C18|sleep|{}", body);
    let mut o = CaseOutcome::new(ident.clone());
    for opt in LEVELS {
        let p = match sem::prepare(&case, opt) {
            Ok(p) => p,
            Err(e) => {
                o.fail(case_key(&format!("{}|{}", ident, opt)), "csleep-not-compiled", format!("csleep({}) {}: {}\n--- source\n{}", n, opt, prep_tag(&e), case.source()));
                continue;
            }
        };
        let pr = match sem::prepare(&case_ref, opt) {
            Ok(p) => p,
            Err(_) => continue,
        };
        let rs = match sem::run_emu_all(&case, &p, 100_000) {
            Ok(r) => r,
            Err(e) => {
                o.status = Status::Skipped(e);
                return o;
            }
        };
        let rr = match sem::run_emu_all(&case_ref, &pr, 100_000) {
            Ok(r) => r,
            Err(e) => {
                o.status = Status::Skipped(e);
                return o;
            }
        };
        o.nontrivial = true;
        o.evals += rs.results.len() as u64;
        // cycle measurement needs the raw log with time stamps: re-run the first input on a machine we own
        let mut m = sem::machine_for(&case, &p);
        for (k, init) in rs.inits.iter().enumerate() {
            let (st, fs) = exec::run_emu(&mut m, p.entry, init, 100_000);
            if st != Stop::Returned {
                o.fail(case_key(&format!("{}|{}", ident, opt)), "does-not-return", format!("csleep({}) {}: {:?}\n--- source\n{}", n, opt, st, case.source()));
                break;
            }
            let m1: Vec<u64> = m.cpu.log.iter().filter(|a| a.addr == 0x3a && a.kind == AccKind::Write).map(|a| a.cycle).collect();
            let m2: Vec<u64> = m.cpu.log.iter().filter(|a| a.addr == 0x3b && a.kind == AccKind::Write).map(|a| a.cycle).collect();
            if m1.len() != 1 || m2.len() != 1 {
                o.fail(case_key(&format!("{}|{}", ident, opt)), "markers-lost", format!("csleep({}) {}: marker strobes executed {} / {} times\n--- source\n{}--- asm\n{}", n, opt, m1.len(), m2.len(), case.source(), sem::func_texts(&p)));
                break;
            }
            let delta = m2[0] as i64 - m1[0] as i64 - 3;
            o.outcomes.push(hash64(&format!("{}", delta)));
            if delta != n as i64 {
                o.fail(case_key(&format!("{}|{}", ident, opt)), "wrong-cycle-count", format!("csleep({}) {}: {} cycles pass between the end of the first marker store and the start of the second\n--- input [{}]\n--- source\n{}--- asm\n{}", n, opt, delta, sem::fmt_init(init), case.source(), sem::func_texts(&p)));
                break;
            }
            // no register / variable changed: compare with the same program without the csleep
            let (_, fr) = &rr.results[k];
            if !exec::states_equal_ignoring_hw(&fs, fr) {
                o.fail(
                    case_key(&format!("{}|{}", ident, opt)),
                    "csleep-changes-state",
                    format!("csleep({}) {}: final state differs from the same program without the csleep (sav holds A after the sleep): {}\n--- input [{}]\n--- source\n{}--- asm\n{}--- asm without csleep\n{}", n, opt, exec::describe_diff(&p, &fs, fr), sem::fmt_init(init), case.source(), sem::func_texts(&p), sem::func_texts(&pr)),
                );
                break;
            }
        }
    }
    o.sample = json!({"kind": "csleep", "n": n, "source": case.source()});
    o
}

fn run_region(ctx: usize, seq: &str) -> CaseOutcome {
    let body = format!("{} strobe(M1); {} strobe(M2); r = 1;", REGION_CTX[ctx], seq);
    let case = mk_case(&body);
    let ident = format!("C18|region|{}", body);
    let mut o = CaseOutcome::new(ident.clone());
    let mut base: Option<(Vec<i64>, String)> = None;
    for opt in LEVELS {
        let p = match sem::prepare(&case, opt) {
            Ok(p) => p,
            Err(PrepFail::Rejected(e)) => {
                o.count(&format!("rejected: {}", e.msg.chars().take(50).collect::<String>()), 1);
                o.status = Status::Rejected;
                return o;
            }
            Err(e) => {
                o.fail(case_key(&format!("{}|{}", ident, opt)), "not-executable", format!("{} {}\n--- source\n{}", opt, prep_tag(&e), case.source()));
                return o;
            }
        };
        let inits = match exec::enumerate_inputs(&p, &case.inputs) {
            Ok(i) => i,
            Err(e) => {
                o.status = Status::Skipped(e);
                return o;
            }
        };
        let mut m = sem::machine_for(&case, &p);
        let mut deltas: Vec<i64> = Vec::new();
        for init in inits.iter().take(12) {
            let (st, _fs) = exec::run_emu(&mut m, p.entry, init, 100_000);
            o.evals += 1;
            if st != Stop::Returned {
                o.fail(case_key(&format!("{}|{}", ident, opt)), "does-not-return", format!("{}: {:?}\n--- source\n{}", opt, st, case.source()));
                return o;
            }
            let m1: Vec<u64> = m.cpu.log.iter().filter(|a| a.addr == 0x3a && a.kind == AccKind::Write).map(|a| a.cycle).collect();
            let m2: Vec<u64> = m.cpu.log.iter().filter(|a| a.addr == 0x3b && a.kind == AccKind::Write).map(|a| a.cycle).collect();
            if m1.len() != 1 || m2.len() != 1 {
                o.fail(case_key(&format!("{}|{}", ident, opt)), "markers-lost", format!("{}: marker strobes executed {} / {} times\n--- source\n{}--- asm\n{}", opt, m1.len(), m2.len(), case.source(), sem::func_texts(&p)));
                return o;
            }
            deltas.push(m2[0] as i64 - m1[0] as i64 - 3);
        }
        o.nontrivial = true;
        o.outcomes.push(hash64(&format!("{:?}", deltas)));
        match &base {
            None => base = Some((deltas, sem::func_texts(&p))),
            Some((b, btext)) => {
                if *b != deltas {
                    o.fail(
                        case_key(&format!("{}|{}", ident, opt)),
                        "explicit-statement-removed-or-added",
                        format!("the region between the markers contains explicit statements only and takes {:?} cycles at -O0 but {:?} at {} (per input): one of them was removed, duplicated or changed\n--- source\n{}--- asm -O0\n{}--- asm {}\n{}", b, deltas, opt, case.source(), btext, opt, sem::func_texts(&p)),
                    );
                    break;
                }
            }
        }
    }
    o.sample = json!({"kind": "region", "context": REGION_CTX[ctx], "statements": seq});
    o
}

fn run_reject(n: i32) -> CaseOutcome {
    let ident = format!("C18|reject|{}", n);
    let mut o = CaseOutcome::new(ident.clone());
    let case = mk_case(&format!("csleep({});", n));
    o.evals = 1;
    o.nontrivial = true;
    match sem::prepare(&case, "-O1") {
        Err(PrepFail::Rejected(_)) => {}
        Ok(p) => o.fail(case_key(&ident), "unsupported-csleep-accepted", format!("csleep({}) was accepted\n--- asm\n{}", n, sem::func_texts(&p))),
        Err(e) => o.fail(case_key(&ident), "unsupported-csleep-crash", format!("csleep({}): {}", n, prep_tag(&e))),
    }
    o
}

fn run_trace(body: &str) -> CaseOutcome {
    let case = mk_case(body);
    let ident = format!("C18|trace|{}", body);
    let mut o = CaseOutcome::new(ident.clone());
    let mut base: Option<Vec<Vec<(u8, u16)>>> = None;
    for opt in LEVELS {
        let p = match sem::prepare(&case, opt) {
            Ok(p) => p,
            Err(PrepFail::Rejected(e)) => {
                o.count(&format!("rejected: {}", e.msg.chars().take(50).collect::<String>()), 1);
                o.status = Status::Rejected;
                return o;
            }
            Err(e) => {
                o.fail(case_key(&format!("{}|{}", ident, opt)), "not-executable", format!("{} {}\n--- source\n{}", opt, prep_tag(&e), case.source()));
                return o;
            }
        };
        // reference events from the source semantics
        let binding = match cref::bind(&case.prog, &p.rec, &p.img) {
            Ok(b) => b,
            Err(e) => {
                o.status = Status::Skipped(e);
                return o;
            }
        };
        let mut m = sem::machine_for(&case, &p);
        let mut la = sem::logged_addrs(&case);
        la.extend(HW_RANGE);
        m.set_logged(&la);
        // execution log on inline assembly lines
        let mut asm_addrs: Vec<(u16, String)> = Vec::new();
        for f in &p.img.funcs {
            for l in &f.lines {
                if l.inline_declared.is_some() {
                    if let LineKind::Instr { .. } = l.kind {
                        asm_addrs.push((l.addr, l.text.trim().to_string()));
                    }
                }
            }
        }
        m.set_exec_logged(&asm_addrs.iter().map(|a| a.0).collect::<Vec<_>>());
        let mut rm = RefMachine::new(&m);
        let inits = match exec::enumerate_inputs(&p, &case.inputs) {
            Ok(i) => i,
            Err(e) => {
                o.status = Status::Skipped(e);
                return o;
            }
        };
        let mut traces: Vec<Vec<(u8, u16)>> = Vec::new();
        for init in &inits {
            let (st, _fs) = exec::run_emu(&mut m, p.entry, init, 200_000);
            o.evals += 1;
            if st != Stop::Returned {
                o.fail(case_key(&format!("{}|{}", ident, opt)), "does-not-return", format!("{} {:?}\n--- source\n{}", opt, st, case.source()));
                return o;
            }
            let got: Vec<(u8, u16)> = m
                .cpu
                .log
                .iter()
                .filter(|a| a.kind == AccKind::Exec || is_logged(a.addr))
                .map(|a| match a.kind {
                    AccKind::Read => (0u8, a.addr),
                    AccKind::Write => (1u8, a.addr),
                    AccKind::Exec => (2u8, 0u16),
                })
                .collect();
            // expected from the source: store(x) reads nothing and writes; BIT $3c inside asm reads R1
            let (_, ev, _) = match rm.run(&case.prog, &binding, Dialect::Iso, init, false, false) {
                Ok(x) => x,
                Err(a) => {
                    o.status = Status::Skipped(format!("cref abort {:?}", a).chars().take(40).collect());
                    return o;
                }
            };
            let mut want: Vec<(u8, u16)> = Vec::new();
            for e in &ev {
                match e {
                    Event::Load(a) if is_logged(*a) => want.push((0, *a)),
                    Event::Store(a) if is_logged(*a) => want.push((1, *a)),
                    Event::Strobe(a) => want.push((1, *a)),
                    Event::Asm(t) => {
                        want.push((2, 0));
                        if t.contains("BIT $3c") {
                            want.push((0, 0x3c));
                        }
                    }
                    _ => {}
                }
            }
            if got != want {
                o.fail(
                    case_key(&format!("{}|{}", ident, opt)),
                    "access-trace-differs",
                    format!("{}: ordered explicit accesses (0=read 1=write 2=asm line, address) executed {:?}, the source prescribes {:?}\n--- input [{}]\n--- source\n{}--- asm\n{}", opt, got, want, sem::fmt_init(init), case.source(), sem::func_texts(&p)),
                );
                return o;
            }
            traces.push(got);
        }
        o.nontrivial = true;
        for t in traces.iter().take(3) {
            o.outcomes.push(hash64(&format!("{:?}", t)));
        }
        match &base {
            None => base = Some(traces),
            Some(b) => {
                if *b != traces {
                    o.fail(case_key(&format!("{}|{}", ident, opt)), "trace-differs-from-O0", format!("{}: explicit access trace differs from -O0\n--- source\n{}", opt, case.source()));
                    return o;
                }
            }
        }
    }
    o.sample = json!({"kind": "trace", "source": case.source()});
    o
}

pub struct C18 {
    q: OnceLock<Vec<TCase>>,
    t: OnceLock<Vec<TCase>>,
}

impl C18 {
    pub fn new() -> C18 {
        C18 { q: OnceLock::new(), t: OnceLock::new() }
    }
    fn cs(&self, tier: Tier) -> &Vec<TCase> {
        match tier {
            Tier::Quick => self.q.get_or_init(|| cases(tier)),
            Tier::Thorough => self.t.get_or_init(|| cases(tier)),
        }
    }
}

impl Check for C18 {
    fn prop(&self) -> &'static str {
        "C18"
    }
    fn level(&self) -> &'static str {
        "exploration"
    }
    fn rule(&self) -> String {
        "(1) csleep: for n = 2..10, 'ctx1; strobe(M1); csleep(n); strobe(M2); store(sav); ctx2' for every pair of 16 context statements (quick: a third of the pairs), at -O0..-O3, on a cycle-accurate emulator: the cycles between the two marker stores must equal n for every input, and RAM, X, Y and A (captured by store(sav)) must equal those of the same program without the csleep; all pairs and selected triples of adjacent csleeps must add up; csleep(n) for n outside 2..10 must be rejected. (2) explicit accesses: all sequences of <= 3 statements with at least one (quick: at least two) of load/store/strobe on dedicated hardware-register addresses (zero page and absolute), asm lines and csleep, mixed with 10 ordinary statements, plus explicit statements inside if/else, for, while, do-while and switch: the ordered list of (read/write, address) accesses to the register addresses and of executed asm lines on the emulator must equal the list the source prescribes (reference interpreter events) for every input at every level -O0..-O3, and be identical across levels. Non-trivial = executed; distinct outcomes = distinct cycle counts / traces.".into()
    }
    fn assumptions(&self) -> Vec<String> {
        vec!["the status flags are not counted as a register value".into(), "DUMMY ($2D) is not a program variable".into(), "marker store STA zp costs 3 cycles".into()]
    }
    fn n_cases(&self, tier: Tier) -> usize {
        self.cs(tier).len()
    }
    fn case_ident(&self, tier: Tier, idx: usize) -> String {
        match &self.cs(tier)[idx] {
            TCase::Sleep { n, before, after } => format!("C18|sleep|{}|{}|{}", n, before, after),
            TCase::SleepSeq(ns) => format!("C18|sleepseq|{:?}", ns),
            TCase::SleepReject(n) => format!("C18|reject|{}", n),
            TCase::Trace(b) => format!("C18|trace|{}", b),
            TCase::Region(c, q) => format!("C18|region|{}|{}", c, q),
        }
    }
    fn run_case(&self, tier: Tier, idx: usize) -> CaseOutcome {
        match &self.cs(tier)[idx] {
            TCase::Sleep { n, before, after } => run_sleep(&[*n], *before, *after),
            TCase::SleepSeq(ns) => run_sleep(ns, 0, 0),
            TCase::SleepReject(n) => run_reject(*n),
            TCase::Trace(b) => run_trace(b),
            TCase::Region(c, q) => run_region(*c, q),
        }
    }
    fn bounds(&self, tier: Tier) -> Value {
        let mut sl = 0;
        let mut tr = 0;
        for c in self.cs(tier) {
            match c {
                TCase::Sleep { .. } | TCase::SleepSeq(_) => sl += 1,
                TCase::Trace(_) => tr += 1,
                _ => {}
            }
        }
        let _ = emu65::A_LOG;
        json!({"csleep_cases": sl, "trace_cases": tr, "csleep_values": "2..10", "levels": LEVELS, "context_statements": CONTEXT, "explicit_statements": EXPLICIT})
    }
}
