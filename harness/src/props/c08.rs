//! C08 — macro expansion is token-exact.

use crate::cparse;
use crate::drv::{self, Def, Outcome, Val};
use crate::engine::{hash64, CaseOutcome, Check, Status, Tier};
use crate::props::c10::ref_eval;
use serde_json::{json, Value};
use std::sync::OnceLock;

#[derive(Clone, Debug)]
pub struct Macro {
    pub name: &'static str,
    pub params: Option<Vec<&'static str>>,
    pub body: &'static str,
}

fn m(name: &'static str, params: Option<&[&'static str]>, body: &'static str) -> Macro {
    Macro { name, params: params.map(|p| p.to_vec()), body }
}

// ---- reference expander (token based, C semantics on the property's subset) ----

fn toks(s: &str) -> Vec<String> {
    let cs: Vec<char> = s.chars().collect();
    let mut v = Vec::new();
    let mut i = 0;
    while i < cs.len() {
        let c = cs[i];
        if c.is_ascii_alphabetic() || c == '_' {
            let st = i;
            while i < cs.len() && (cs[i].is_ascii_alphanumeric() || cs[i] == '_') {
                i += 1;
            }
            v.push(cs[st..i].iter().collect());
        } else if c.is_ascii_digit() {
            let st = i;
            while i < cs.len() && (cs[i].is_ascii_alphanumeric()) {
                i += 1;
            }
            v.push(cs[st..i].iter().collect());
        } else if c == '"' {
            let st = i;
            i += 1;
            while i < cs.len() && cs[i] != '"' {
                i += 1;
            }
            i += 1;
            v.push(cs[st..i.min(cs.len())].iter().collect());
        } else {
            v.push(c.to_string());
            i += 1;
        }
    }
    v
}

fn is_ident(t: &str) -> bool {
    t.chars().next().map(|c| c.is_ascii_alphabetic() || c == '_').unwrap_or(false)
}

pub fn expand(text: &str, macros: &[Macro], depth: usize) -> String {
    if depth > 20 {
        return text.to_string();
    }
    let t = toks(text);
    let mut out = String::new();
    let mut i = 0;
    while i < t.len() {
        let tok = &t[i];
        if is_ident(tok) {
            if let Some(mc) = macros.iter().rev().find(|x| x.name == tok) {
                match &mc.params {
                    None => {
                        out.push_str(&expand(mc.body, macros, depth + 1));
                        i += 1;
                        continue;
                    }
                    Some(params) => {
                        // next non-space token must be '('
                        let mut j = i + 1;
                        while j < t.len() && t[j].trim().is_empty() {
                            j += 1;
                        }
                        if j < t.len() && t[j] == "(" {
                            let mut args: Vec<String> = vec![String::new()];
                            let mut lvl = 1;
                            j += 1;
                            while j < t.len() {
                                if t[j] == "(" {
                                    lvl += 1;
                                } else if t[j] == ")" {
                                    lvl -= 1;
                                    if lvl == 0 {
                                        break;
                                    }
                                }
                                if t[j] == "," && lvl == 1 {
                                    args.push(String::new());
                                } else {
                                    args.last_mut().unwrap().push_str(&t[j]);
                                }
                                j += 1;
                            }
                            if params.is_empty() {
                                args.clear();
                            }
                            if args.len() == params.len() {
                                // substitute parameters in the body (whole identifiers), arguments fully expanded first
                                let bt = toks(mc.body);
                                let mut b = String::new();
                                for x in bt {
                                    if let Some(pi) = params.iter().position(|p| *p == x) {
                                        b.push_str(&expand(args[pi].trim(), macros, depth + 1));
                                    } else {
                                        b.push_str(&x);
                                    }
                                }
                                out.push_str(&expand(&b, macros, depth + 1));
                                i = j + 1;
                                continue;
                            }
                        }
                    }
                }
            }
        }
        out.push_str(tok);
        i += 1;
    }
    out
}

fn strip_ws(s: &str) -> String {
    s.chars().filter(|c| !c.is_whitespace()).collect()
}

// ---- case space ----

#[derive(Clone, Debug)]
pub struct MCase {
    pub family: &'static str,
    pub defs: Vec<Macro>,
    /// lines before the use (besides the definitions): e.g. const declarations
    pub prelude: String,
    pub use_expr: String,
    /// deliver object-like definitions on the command line instead of #define
    pub via_d: bool,
    /// filler macros: (count before, count between first and second def, count after)
    pub filler: (usize, usize, usize),
    /// undefine this macro after all definitions (must not be used by other bodies)
    pub undef: Option<&'static str>,
    /// expected to be judged by text + value (false: only differential -D vs #define)
    pub judge_value: bool,
}

fn def_sets() -> Vec<(&'static str, Vec<Macro>)> {
    vec![
        ("obj", vec![m("A", None, "2")]),
        ("obj-expr", vec![m("A", None, "(1+2)")]),
        ("obj-eq", vec![m("A", None, "(3==3)"), m("B", None, "(A!=0)")]),
        ("obj-two", vec![m("A", None, "2"), m("B", None, "(A+1)")]),
        ("obj-chain", vec![m("A", None, "2"), m("B", None, "(A+1)"), m("C", None, "(B*A)")]),
        ("prefix-names", vec![m("A", None, "2"), m("AB", None, "30"), m("A_1", None, "400")]),
        ("suffix-names", vec![m("A", None, "2"), m("xA", None, "50"), m("AA", None, "7")]),
        ("fn0", vec![m("F", Some(&[]), "7")]),
        ("fn1", vec![m("F", Some(&["x"]), "(x+1)")]),
        ("fn1-bare", vec![m("F", Some(&["x"]), "x*2")]),
        ("fn1-twice", vec![m("F", Some(&["x"]), "(x+x)")]),
        ("fn2", vec![m("G", Some(&["x", "y"]), "(x-y)")]),
        ("fn2-drop", vec![m("G", Some(&["x", "y"]), "(y)")]),
        ("fn2-swap", vec![m("G", Some(&["x", "y"]), "(y-x)")]),
        ("fn3", vec![m("H", Some(&["a", "b", "c"]), "(a*100+b*10+c)")]),
        ("fn-uses-obj", vec![m("A", None, "2"), m("F", Some(&["x"]), "(x+A)")]),
        ("fn-uses-fn", vec![m("F", Some(&["x"]), "(x+1)"), m("K", Some(&["x"]), "(F(x)*2)")]),
        ("fn-and-obj", vec![m("A", None, "2"), m("F", Some(&["x"]), "(x+1)"), m("G", Some(&["x", "y"]), "(x-y)")]),
        ("param-like-macro-name", vec![m("A", None, "2"), m("P", Some(&["A"]), "(A+1)")]),
        ("param-prefix", vec![m("xx", None, "5"), m("F", Some(&["x"]), "(x+xx)")]),
        // an object-like macro whose body starts with a parenthesised identifier: not a parameter list
        ("obj-paren-ident", vec![m("A", None, "2"), m("B", None, "(A)")]),
        ("obj-paren-ident-chain", vec![m("A", None, "2"), m("B", None, "(A)"), m("C", None, "(B) + (A)")]),
    ]
}

fn uses_for(defs: &[Macro]) -> Vec<String> {
    let mut v: Vec<String> = Vec::new();
    let objs: Vec<&str> = defs.iter().filter(|d| d.params.is_none()).map(|d| d.name).collect();
    let fns: Vec<&Macro> = defs.iter().filter(|d| d.params.is_some()).collect();
    for o in &objs {
        for t in ["{}", "{}+1", "1+{}", "{}*{}", "({})", "-{}", "{}<<1", "{}==2", "{}?1:2", "1?{}:3", "{}-{}", "{} + {}", "3*({}+1)", "{}|{}<<4"] {
            v.push(t.replace("{}", o));
        }
        for o2 in &objs {
            if o != o2 {
                v.push(format!("{}+{}", o, o2));
                v.push(format!("{}*10+{}", o2, o));
            }
        }
    }
    let arg_pool: Vec<String> = {
        let mut a: Vec<String> = vec!["1".into(), "(1)".into(), "((1))".into(), "(((1)))".into(), "((((1))))".into(), "1+2".into(), "(1+2)".into(), "(1+2)*3".into(), "3*(1+2)".into(), "(2)*((3)+(4))".into()];
        for o in &objs {
            a.push(o.to_string());
            a.push(format!("({}+1)", o));
        }
        a
    };
    for f in &fns {
        let n = f.params.as_ref().unwrap().len();
        match n {
            0 => {
                v.push(format!("{}()", f.name));
                v.push(format!("{}()+1", f.name));
                v.push(format!("{}()*{}()", f.name, f.name));
            }
            1 => {
                for a in &arg_pool {
                    v.push(format!("{}({})", f.name, a));
                    v.push(format!("1+{}({})", f.name, a));
                    v.push(format!("{}({})*2", f.name, a));
                }
                v.push(format!("{0}({0}(1))", f.name));
                v.push(format!("{0}({0}({0}(1)))", f.name));
                v.push(format!("{0}(1)+{0}(2)", f.name));
                v.push(format!("{0}( 1 )", f.name));
                v.push(format!("{0} (1)", f.name));
                v.push(format!("{0}\t( 2 )+{0} ({0}  (1))", f.name));
                for g in &fns {
                    if g.name != f.name && g.params.as_ref().unwrap().len() == 1 {
                        v.push(format!("{}({}(1))", f.name, g.name));
                    }
                    if g.params.as_ref().unwrap().len() == 2 {
                        v.push(format!("{}({}(5,3))", f.name, g.name));
                    }
                }
            }
            2 => {
                for a in arg_pool.iter().take(9) {
                    for b in ["1", "(2)", "4+4"] {
                        v.push(format!("{}({},{})", f.name, a, b));
                        v.push(format!("{}({}, {})", f.name, b, a));
                    }
                }
                v.push(format!("{0}(9,{0}(5,3))", f.name));
                v.push(format!("{0}({0}(9,5),3)", f.name));
                v.push(format!("{0}(1,2)+{0}(3,4)", f.name));
                for g in &fns {
                    if g.params.as_ref().unwrap().len() == 1 {
                        v.push(format!("{}({}(1),{}(2))", f.name, g.name, g.name));
                    }
                }
            }
            _ => {
                v.push(format!("{}(1,2,3)", f.name));
                v.push(format!("{}((1),(2),(3))", f.name));
                v.push(format!("{}(1+1,2*2,(3))", f.name));
            }
        }
    }
    v
}

pub fn cases(tier: Tier) -> Vec<MCase> {
    let mut v = Vec::new();
    for (fam, defs) in def_sets() {
        let all_obj = defs.iter().all(|d| d.params.is_none());
        for u in uses_for(&defs) {
            v.push(MCase { family: fam, defs: defs.clone(), prelude: String::new(), use_expr: u.clone(), via_d: false, filler: (0, 0, 0), undef: None, judge_value: true });
            if all_obj {
                v.push(MCase { family: fam, defs: defs.clone(), prelude: String::new(), use_expr: u.clone(), via_d: true, filler: (0, 0, 0), undef: None, judge_value: true });
            }
        }
    }
    // names inside longer identifiers (declared constants) and inside string literals
    let a = vec![m("A", None, "2"), m("AB", None, "30")];
    for u in ["A1 + A", "xA + A", "A_ + A", "_A + A", "AB1 + AB", "A + A1 + AB + AB1"] {
        v.push(MCase { family: "inside-identifier", defs: a.clone(), prelude: "const short A1 = 40;\nconst short xA = 500;\nconst short A_ = 6000;\nconst short _A = 7;\nconst short AB1 = 9;\n".into(), use_expr: u.into(), via_d: false, filler: (0, 0, 0), undef: None, judge_value: false });
    }
    v.push(MCase { family: "inside-string", defs: vec![m("A", None, "2"), m("F", Some(&["x"]), "(x+1)")], prelude: "const char *str = \"A F(1) AB A\";\n".into(), use_expr: "A".into(), via_d: false, filler: (0, 0, 0), undef: None, judge_value: true });
    // filler blocks around the RegexSet roll-over (100 macros per set) and #undef bookkeeping
    let fills: Vec<(usize, usize, usize)> = if tier == Tier::Quick {
        vec![(98, 0, 0), (99, 0, 0), (100, 0, 0), (101, 0, 0), (0, 99, 0), (0, 100, 0), (205, 0, 0), (0, 0, 101), (97, 0, 5)]
    } else {
        let mut f = vec![];
        for a in [0usize, 1, 96, 97, 98, 99, 100, 101, 102, 198, 199, 200, 201, 205] {
            for b in [0usize, 1, 98, 99, 100, 101] {
                f.push((a, b, 0));
                f.push((a, b, 101));
            }
        }
        f
    };
    let three = vec![m("A", None, "2"), m("B", None, "(A+1)"), m("F", Some(&["x"]), "(x+B)")];
    for fl in &fills {
        for u in ["A", "B", "F(1)", "F(A)+B", "Z0+A", "Z1*B"] {
            if u.starts_with('Z') && fl.0 + fl.1 + fl.2 < 2 {
                continue;
            }
            v.push(MCase { family: "filler", defs: three.clone(), prelude: String::new(), use_expr: u.into(), via_d: false, filler: *fl, undef: None, judge_value: true });
        }
        // use the macros around the roll-over positions
        let total = fl.0 + fl.1 + fl.2;
        for k in [0usize, 1, 96, 97, 98, 99, 100, 101, 197, 198, 199, 200, 204] {
            if k < total {
                v.push(MCase { family: "filler-use", defs: three.clone(), prelude: String::new(), use_expr: format!("Z{}+A", k), via_d: false, filler: *fl, undef: None, judge_value: true });
            }
        }
    }
    // #undef removes exactly the named macro
    let two = vec![m("A", None, "2"), m("AB", None, "30"), m("F", Some(&["x"]), "(x+1)")];
    for fl in [(0usize, 0usize, 0usize), (99, 0, 0), (98, 0, 0), (100, 0, 0), (0, 0, 100), (97, 1, 0)] {
        for (und, u) in [("A", "AB+F(1)"), ("AB", "A+F(1)"), ("F", "A+AB"), ("A", "F(AB)")] {
            v.push(MCase { family: "undef", defs: two.clone(), prelude: String::new(), use_expr: u.into(), via_d: false, filler: fl, undef: Some(und), judge_value: true });
        }
        for k in [0usize, 1, 97, 98, 99] {
            if k < fl.0 + fl.1 + fl.2 {
                // undefine a filler macro, then use its neighbours
                v.push(MCase { family: "undef-filler", defs: two.clone(), prelude: format!("#undef Z{}\n", k), use_expr: format!("Z{}+A+AB", if k == 0 { 1 } else { k - 1 }), via_d: false, filler: fl, undef: None, judge_value: true });
            }
        }
    }
    v
}

fn def_line(d: &Macro) -> String {
    match &d.params {
        None => format!("#define {} {}\n", d.name, d.body),
        Some(p) => format!("#define {}({}) {}\n", d.name, p.join(", "), d.body),
    }
}

pub fn build(c: &MCase) -> (String, Vec<String>, Vec<Macro>) {
    // returns (source, options, effective macro list for the reference)
    let mut src = String::new();
    let mut opts: Vec<String> = vec!["-O0".into()];
    let mut eff: Vec<Macro> = Vec::new();
    let mut zi = 0usize;
    let mut zdefs: Vec<(String, String)> = Vec::new();
    let mut filler = |n: usize, src: &mut String, zi: &mut usize, zdefs: &mut Vec<(String, String)>| {
        for _ in 0..n {
            src.push_str(&format!("#define Z{} {}\n", *zi, 1000 + *zi));
            zdefs.push((format!("Z{}", *zi), format!("{}", 1000 + *zi)));
            *zi += 1;
        }
    };
    filler(c.filler.0, &mut src, &mut zi, &mut zdefs);
    for (k, d) in c.defs.iter().enumerate() {
        if c.via_d && d.params.is_none() {
            opts.push(format!("-D{}={}", d.name, d.body));
        } else {
            src.push_str(&def_line(d));
        }
        eff.push(d.clone());
        if k == 0 {
            filler(c.filler.1, &mut src, &mut zi, &mut zdefs);
        }
    }
    filler(c.filler.2, &mut src, &mut zi, &mut zdefs);
    if let Some(u) = c.undef {
        src.push_str(&format!("#undef {}\n", u));
        eff.retain(|x| x.name != u);
    }
    src.push_str(&c.prelude);
    src.push_str(&format!("const short r = {};\nvoid main() {{}}\n", c.use_expr));
    // filler macros as reference macros too (leaked 'static strings are fine in a short-lived worker)
    for (n, b) in zdefs {
        if c.prelude.contains(&format!("#undef {}\n", n)) {
            continue;
        }
        let n: &'static str = Box::leak(n.into_boxed_str());
        let b: &'static str = Box::leak(b.into_boxed_str());
        eff.push(Macro { name: n, params: None, body: b });
    }
    (src, opts, eff)
}

pub fn run(c: &MCase) -> CaseOutcome {
    let (src, opts, eff) = build(c);
    let ident = format!("C08|{}|{:?}|{}|{:?}|{}|{}", c.family, c.filler, c.via_d, c.undef, c.prelude, c.use_expr);
    let coord = format!("coord:C08:{}:{}:{:?}:{}:{}", c.family, c.use_expr, c.filler, c.via_d, c.undef.unwrap_or("-"));
    let mut o = CaseOutcome::new(ident);
    o.evals = 1;
    let o2: Vec<&str> = opts.iter().map(|s| s.as_str()).collect();
    let (out, _) = drv::compile_src(src.as_bytes(), &o2);
    let expanded = expand(&c.use_expr, &eff, 0);
    let expect_val = cparse::parse_expr(&expanded).ok().and_then(|e| ref_eval(&cparse::strip_parens(&e)));
    let mut fail = |o: &mut CaseOutcome, kind: &str, what: String| {
        o.fail(coord.clone(), kind, format!("{} use `{}` (reference expansion `{}`)\n--- {}\n--- options {:?}\n--- source\n{}", c.family, c.use_expr, expanded, what, opts, if src.len() > 1500 { format!("...{}", &src[src.len() - 1500..]) } else { src.clone() }));
    };
    let rec = match out {
        Outcome::Ok(r) => r,
        Outcome::Err(e) => {
            // using an undefined name (after #undef) is an error by construction
            if c.undef.is_some() && expect_val.is_none() {
                o.status = Status::Rejected;
                return o;
            }
            if expect_val.is_some() && c.judge_value {
                fail(&mut o, "rejected", format!("the expanded program is valid but the compiler reports: {} (line {})", e.msg, e.line));
            } else {
                o.status = Status::Rejected;
            }
            return o;
        }
        Outcome::Panic { loc, msg } => {
            fail(&mut o, "panic", format!("panic at {}: {}", loc, msg));
            return o;
        }
    };
    o.nontrivial = true;
    let got = rec.vars.iter().find(|v| v.name == "r").and_then(|v| match &v.def {
        Def::Value(Val::Int(i)) => Some(*i as i64),
        _ => None,
    });
    o.outcomes.push(hash64(&format!("{:?}", got)));
    // text: the preprocessed declaration of r
    let line = rec.preprocessed.lines().find(|l| l.trim_start().starts_with("const short r =")).unwrap_or("").to_string();
    let want_line = format!("const short r = {};", expanded);
    if c.family == "inside-identifier" {
        // identifiers that merely contain a macro name must survive: evaluate with the declared constants
        let consts = [("A1", 40i64), ("xA", 500), ("A_", 6000), ("_A", 7), ("AB1", 9)];
        let mut t = expanded.clone();
        // longest names first
        let mut cs: Vec<(&str, i64)> = consts.to_vec();
        cs.sort_by_key(|x| std::cmp::Reverse(x.0.len()));
        for (n, v) in cs {
            t = toks(&t).iter().map(|x| if x == n { v.to_string() } else { x.clone() }).collect::<String>();
        }
        let _ = t;
        if strip_ws(&line) != strip_ws(&want_line) {
            fail(&mut o, "text-differs", format!("preprocessed line is `{}`, expected `{}`", line.trim(), want_line));
        }
        return o;
    }
    if strip_ws(&line) != strip_ws(&want_line) {
        fail(&mut o, "text-differs", format!("preprocessed line is `{}`, expected `{}`", line.trim(), want_line));
        return o;
    }
    if c.judge_value {
        if let Some(ev) = expect_val {
            if got != Some(ev) {
                fail(&mut o, "value-differs", format!("r = {:?}, expected {}", got, ev));
                return o;
            }
        }
    }
    if c.family == "inside-string" {
        let b = rec.vars.iter().find(|v| v.name == "str").map(|v| v.def.clone());
        let want: Vec<Val> = "A F(1) AB A\0".bytes().map(|x| Val::Int(x as i32)).collect();
        if b != Some(Def::Array(want)) {
            fail(&mut o, "string-changed", format!("literal stored as {:?}", b));
        }
    }
    if c.via_d {
        // differential: same program with #define lines must give the same declarations
        let mut c2 = c.clone();
        c2.via_d = false;
        let (src2, opts2, _) = build(&c2);
        let o3: Vec<&str> = opts2.iter().map(|s| s.as_str()).collect();
        let (out2, _) = drv::compile_src(src2.as_bytes(), &o3);
        match out2 {
            Outcome::Ok(r2) => {
                if r2.vars != rec.vars {
                    fail(&mut o, "dash-D-differs", format!("-D gives {:?}, #define gives {:?}", rec.vars.iter().find(|v| v.name == "r"), r2.vars.iter().find(|v| v.name == "r")));
                }
            }
            other => fail(&mut o, "dash-D-differs", format!("#define variant: {}", other.tag())),
        }
    }
    o.sample = json!({"family": c.family, "definitions": c.defs.iter().map(def_line).collect::<Vec<_>>(), "use": c.use_expr, "expansion": expanded, "filler": [c.filler.0, c.filler.1, c.filler.2], "via_D": c.via_d});
    o
}

pub struct C08 {
    q: OnceLock<Vec<MCase>>,
    t: OnceLock<Vec<MCase>>,
}

impl C08 {
    pub fn new() -> C08 {
        C08 { q: OnceLock::new(), t: OnceLock::new() }
    }
    fn cs(&self, tier: Tier) -> &Vec<MCase> {
        match tier {
            Tier::Quick => self.q.get_or_init(|| cases(tier)),
            Tier::Thorough => self.t.get_or_init(|| cases(tier)),
        }
    }
}

impl Check for C08 {
    fn prop(&self) -> &'static str {
        "C08"
    }
    fn level(&self) -> &'static str {
        "exploration"
    }
    fn rule(&self) -> String {
        "Definition sets (20: object-like with literal/expression body, chains of bodies using earlier macros, names that are prefixes/suffixes of each other, function-like with 0..3 parameters, bodies using a parameter twice / dropping / swapping parameters, a parameter named like another macro) x every use site of a generated list (next to each operator class, twice on a line, arguments with 0..4 levels of nested parentheses, nested and chained macro calls, spaces inside the call and between the macro name and its parenthesis) x delivery by #define or by -D NAME=VALUE; plus uses inside longer identifiers and inside a string literal; plus blocks of 0/1/96..102/198..201/205 filler macros before, between and after the definitions (RegexSet roll-over at 100) with uses of the macros around the roll-over; plus #undef of each macro and of filler macros. Oracle: a token-based reference expander (whole-identifier match, positional substitution, bodies written with previously defined macros only) gives the expected text of 'const short r = <use>;', compared with CompilerState.preprocessed_utf8 modulo white space, and the expected value of r (reference evaluation); -D delivery must give the same declarations as #define. Non-trivial = accepted; distinct outcomes = distinct values of r.".into()
    }
    fn assumptions(&self) -> Vec<String> {
        vec!["accidental token pasting by removed white space is not judged (comparison modulo white space)".into(), "## pasting, a macro name followed by white space before '(', and bodies that use later-defined macros are outside the alphabet".into()]
    }
    fn n_cases(&self, tier: Tier) -> usize {
        self.cs(tier).len()
    }
    fn case_ident(&self, tier: Tier, idx: usize) -> String {
        let c = &self.cs(tier)[idx];
        format!("C08|{}|{:?}|{}|{}", c.family, c.filler, c.via_d, c.use_expr)
    }
    fn run_case(&self, tier: Tier, idx: usize) -> CaseOutcome {
        run(&self.cs(tier)[idx])
    }
    fn bounds(&self, tier: Tier) -> Value {
        let mut fam = std::collections::BTreeMap::new();
        for c in self.cs(tier) {
            *fam.entry(c.family).or_insert(0u64) += 1;
        }
        json!({"families": fam, "definition_sets": def_sets().len()})
    }
}
