//! C06 — diagnostics name the true source location.

use crate::drv::{self, Outcome};
use crate::engine::{hash64, CaseOutcome, Check, Tier};
use serde_json::{json, Value};
use std::sync::OnceLock;

pub const N_PREFIX: usize = 20;
pub const N_KINDS: usize = 18;

const PREFIX_NAMES: [&str; N_PREFIX] = [
    "blank", "line-comment", "block-comment-1", "block-comment-3", "comment-then-decl", "comment2-then-decl", "spliced-decl", "define", "if0-block", "ifdef-else-block", "include-h", "include-h-nonl", "include-asm", "define-and-use", "decl-with-string", "crlf-decl",
    "block-comment-url", "include-asm-nonl", "decl-with-non-ascii", "directives-with-tabs",
];

const KIND_NAMES: [&str; N_KINDS] = [
    "#error", "unknown-directive", "unterminated-string", "missing-include", "#if-undefined", "pest-syntax", "unknown-identifier", "redefinition", "const-div-zero", "short-pointer", "subscript-on-scalar", "too-many-params", "break-outside-loop", "csleep-11", "deref-non-pointer",
    "pest-syntax-in-function", "generator-error-in-local-initialiser", "generator-error-in-statement",
];

#[derive(Clone, Debug)]
pub struct LCase {
    pub prefixes: Vec<usize>,
    pub kind: usize,
    /// 0 = main file, 1 = inside an included file, 2 = main file, statement spliced, 3 = main file, no final newline, 4 = statement in column 1
    pub placement: u8,
}

struct Built {
    main: String,
    files: Vec<(String, String)>,
    expect_file: String,
    expect_lines: Vec<u32>,
    expect_included_in: Option<(String, u32)>,
    /// (identifier, file, allowed physical lines) of marker declarations
    markers: Vec<(String, String, Vec<u32>)>,
    global_kind: bool,
}

/// a text builder that tracks the physical line number
struct Txt {
    s: String,
    line: u32,
}
impl Txt {
    fn new() -> Txt {
        Txt { s: String::new(), line: 1 }
    }
    fn push(&mut self, t: &str) {
        self.s.push_str(t);
        self.line += t.matches('\n').count() as u32;
    }
}

fn emit_prefix(k: usize, seq: usize, tag: &str, t: &mut Txt, fname: &str, files: &mut Vec<(String, String)>, markers: &mut Vec<(String, String, Vec<u32>)>) {
    let id = format!("p{}_{}", tag, seq);
    match k {
        0 => t.push("\n"),
        1 => t.push("// a comment with \"quote and /* opener\n"),
        2 => t.push("/* one line */\n"),
        3 => t.push("/* three\n line\n comment */\n"),
        4 => {
            markers.push((id.clone(), fname.to_string(), vec![t.line]));
            t.push(&format!("/* c */ char {};\n", id));
        }
        5 => {
            markers.push((id.clone(), fname.to_string(), vec![t.line + 1]));
            t.push(&format!("/* two\n lines */ char {};\n", id));
        }
        6 => {
            markers.push((id.clone(), fname.to_string(), vec![t.line, t.line + 1]));
            t.push(&format!("char \\\n {};\n", id));
        }
        7 => t.push(&format!("#define Q{} 1\n", id)),
        8 => t.push(&format!("#if 0\nchar nope{};\n#endif\n", id)),
        9 => {
            markers.push((id.clone(), fname.to_string(), vec![t.line + 3]));
            t.push(&format!("#ifdef UNDEFINED_NAME\nchar nope{};\n#else\nchar {};\n#endif\n", id, id));
        }
        10 | 11 => {
            let hn = format!("c06h_{}.h", id);
            let body = if k == 10 { format!("// header\nchar h{};\n", id) } else { format!("// header\nchar h{};", id) };
            markers.push((format!("h{}", id), hn.clone(), vec![2]));
            files.push((hn.clone(), body));
            t.push(&format!("#include \"{}\"\n", hn));
            // a declaration right after the include: its line must not be shifted
            markers.push((format!("{}after", id), fname.to_string(), vec![t.line]));
            t.push(&format!("char {}after;\n", id));
        }
        12 => {
            let an = format!("c06a_{}.asm", id);
            files.push((an.clone(), format!("; data\nlbl{}\n\t.byte 1\n", id)));
            t.push(&format!("#include \"{}\"\n", an));
            markers.push((format!("{}after", id), fname.to_string(), vec![t.line]));
            t.push(&format!("char {}after;\n", id));
        }
        13 => {
            markers.push((id.clone(), fname.to_string(), vec![t.line + 1]));
            t.push(&format!("#define R{} 2\nconst char {} = R{};\n", id, id, id));
        }
        14 => {
            markers.push((id.clone(), fname.to_string(), vec![t.line]));
            t.push(&format!("const char *{} = \"str // not a comment /* nor this\";\n", id));
        }
        15 => {
            markers.push((id.clone(), fname.to_string(), vec![t.line]));
            t.push(&format!("char {};\r\n", id));
        }
        16 => t.push("/* see http://example.org/x */\n"),
        17 => {
            // assembler file whose last line has no end-of-line
            let an = format!("c06b_{}.asm", id);
            files.push((an.clone(), format!("; data\nlbm{}\n\t.byte 2", id)));
            t.push(&format!("#include \"{}\"\n", an));
            markers.push((format!("{}after", id), fname.to_string(), vec![t.line]));
            t.push(&format!("char {}after;\n", id));
        }
        18 => {
            // multi-byte characters in the preprocessed text: offsets are bytes, not characters
            markers.push((id.clone(), fname.to_string(), vec![t.line]));
            t.push(&format!("const char {}[40] = {{{}}};\n", id, vec!["'é'"; 40].join(", ")));
        }
        19 => {
            // a tab separates a directive from its argument like a space
            markers.push((id.clone(), fname.to_string(), vec![t.line + 2]));
            t.push(&format!("#define\tT{} 2\n#ifdef\tT{}\nconst char {} = T{};\n#endif\n#undef\tT{}\n", id, id, id, id, id));
        }
        _ => unreachable!(),
    }
}

fn is_global_kind(kind: usize) -> bool {
    matches!(kind, 0 | 1 | 2 | 3 | 4 | 5 | 7 | 8 | 9)
}

fn offending(kind: usize) -> &'static str {
    match kind {
        0 => "#error boom",
        1 => "#pragma nope",
        2 => "const char *u = \"abc;",
        3 => "#include \"c06_missing_file.h\"",
        4 => "#if UNDEFINED_NAME",
        5 => "char 1bad;",
        6 => "  zz = 1;",
        7 => "char dupv, dupv;",
        8 => "const char dz = 1 / 0;",
        9 => "short *ptrs;",
        10 => "  a[1] = 2;",
        11 => "  f(1, 2);",
        12 => "  break;",
        13 => "  csleep(11);",
        14 => "  *a = 1;",
        15 => "  a = = 1;",
        16 => "  char lv = a * a;",
        17 => "  a = a * a;",
        _ => unreachable!(),
    }
}

fn build(c: &LCase) -> Built {
    let mut files: Vec<(String, String)> = Vec::new();
    let mut markers = Vec::new();
    let global = is_global_kind(c.kind);
    let mut main = Txt::new();
    main.push("char a;\nvoid f(char v) {}\n");
    let expect_file;
    let mut expect_lines;
    let mut expect_included_in = None;
    let col1 = c.placement == 4;
    let emit_offending = |t: &mut Txt, spliced: bool, fn_name: &str| -> Vec<u32> {
        let mut lines = Vec::new();
        if global {
            lines.push(t.line);
            t.push(offending(c.kind));
            t.push("\n");
            if c.kind == 4 {
                t.push("#endif\n");
            }
            t.push(&format!("void {}()\n{{\n}}\n", fn_name));
        } else {
            t.push(&format!("void {}()\n{{\n  a = 2;\n", fn_name));
            if spliced {
                lines.push(t.line);
                lines.push(t.line + 1);
                let o = offending(c.kind);
                // splice after the first token
                let cut = o.trim_start().find(' ').map(|i| i + (o.len() - o.trim_start().len())).unwrap_or(o.len() - 1);
                t.push(&format!("{} \\\n {}\n", &o[..cut], &o[cut..]));
            } else {
                lines.push(t.line);
                t.push(if col1 { offending(c.kind).trim_start() } else { offending(c.kind) });
                t.push("\n");
            }
            t.push("  a = 3;\n}\n");
        }
        lines
    };
    if c.placement == 1 {
        // half of the prefixes in the main file before the include, all of them again inside the included file
        for (i, p) in c.prefixes.iter().enumerate().take(1) {
            emit_prefix(*p, i, "m", &mut main, "in.c", &mut files, &mut markers);
        }
        let inc_name = format!("c06inc_{}_{}.h", c.kind, c.prefixes.iter().map(|p| p.to_string()).collect::<Vec<_>>().join("_"));
        let inc_line = main.line;
        main.push(&format!("#include \"{}\"\n", inc_name));
        main.push("void main()\n{\n}\n");
        let mut inc = Txt::new();
        inc.push("// included file\n");
        for (i, p) in c.prefixes.iter().enumerate() {
            emit_prefix(*p, i, "i", &mut inc, &inc_name, &mut files, &mut markers);
        }
        expect_lines = emit_offending(&mut inc, false, "incfn");
        files.push((inc_name.clone(), inc.s));
        expect_file = inc_name;
        expect_included_in = Some(("in.c".to_string(), inc_line));
    } else {
        for (i, p) in c.prefixes.iter().enumerate() {
            emit_prefix(*p, i, "m", &mut main, "in.c", &mut files, &mut markers);
        }
        expect_lines = emit_offending(&mut main, c.placement == 2, "main");
        expect_file = "in.c".to_string();
        if c.placement == 3 {
            while main.s.ends_with('\n') {
                main.s.pop();
            }
        }
    }
    if c.kind == 2 || c.kind == 5 || c.kind == 15 {
        // the parser reports the furthest position reached, which may be the start of the next line
        let l = *expect_lines.last().unwrap();
        expect_lines.push(l + 1);
    }
    Built { main: main.s, files, expect_file, expect_lines, expect_included_in, markers, global_kind: global }
}

pub fn cases(tier: Tier) -> Vec<LCase> {
    let mut seqs: Vec<Vec<usize>> = vec![vec![]];
    for a in 0..N_PREFIX {
        seqs.push(vec![a]);
    }
    for a in 0..N_PREFIX {
        for b in 0..N_PREFIX {
            seqs.push(vec![a, b]);
        }
    }
    if tier == Tier::Thorough {
        for a in 0..N_PREFIX {
            for b in 0..N_PREFIX {
                for c in 0..N_PREFIX {
                    seqs.push(vec![a, b, c]);
                }
            }
        }
    }
    let mut v = Vec::new();
    for s in &seqs {
        for kind in 0..N_KINDS {
            for placement in 0..5u8 {
                if (placement == 2 || placement == 4) && is_global_kind(kind) {
                    continue;
                }
                if tier == Tier::Thorough && s.len() == 3 && placement >= 2 {
                    continue;
                }
                if tier == Tier::Quick && s.len() == 2 && placement == 3 && kind % 4 != 0 {
                    continue;
                }
                v.push(LCase { prefixes: s.clone(), kind, placement });
            }
        }
        // no error: the line map itself
        v.push(LCase { prefixes: s.clone(), kind: usize::MAX, placement: 0 });
    }
    v
}

fn name_of(c: &LCase) -> String {
    format!("[{}] kind={} placement={}", c.prefixes.iter().map(|p| PREFIX_NAMES[*p]).collect::<Vec<_>>().join(","), if c.kind == usize::MAX { "none" } else { KIND_NAMES[c.kind] }, c.placement)
}

pub fn run(c: &LCase) -> CaseOutcome {
    let ident = format!("C06|{}", name_of(c));
    let mut o = CaseOutcome::new(ident);
    o.evals = 1;
    let dir = crate::engine::run_dir();
    let sub = format!("{}/c06_{}", dir, std::process::id());
    std::fs::create_dir_all(&sub).ok();
    let coord = format!("coord:C06:{}:{}:{}", c.prefixes.iter().map(|p| PREFIX_NAMES[*p]).collect::<Vec<_>>().join("+"), if c.kind == usize::MAX { "linemap" } else { KIND_NAMES[c.kind] }, c.placement);
    if c.kind == usize::MAX {
        // line-map side oracle on a successful compile
        let mut files = Vec::new();
        let mut markers = Vec::new();
        let mut main = Txt::new();
        main.push("char a;\nvoid f(char v) {}\n");
        for (i, p) in c.prefixes.iter().enumerate() {
            emit_prefix(*p, i, "m", &mut main, "in.c", &mut files, &mut markers);
        }
        let endline = main.line;
        main.push("char zlast;\nvoid main()\n{\n}\n");
        markers.push(("zlast".to_string(), "in.c".to_string(), vec![endline]));
        for (n, body) in &files {
            std::fs::write(format!("{}/{}", sub, n), body).expect("write include");
        }
        let (out, _) = drv::compile_src(main.s.as_bytes(), &["-O0", "-I", sub.as_str()]);
        for (n, _) in &files {
            let _ = std::fs::remove_file(format!("{}/{}", sub, n));
        }
        match out {
            Outcome::Ok(rec) => {
                o.nontrivial = !c.prefixes.is_empty();
                let plines: Vec<&str> = rec.preprocessed.split('\n').collect();
                let n_out = if rec.preprocessed.ends_with('\n') { plines.len() - 1 } else { plines.len() };
                o.outcomes.push(hash64(&format!("{:?}", rec.mapped_lines)));
                if rec.mapped_lines.len() != n_out {
                    o.fail(coord.clone(), "linemap-length", format!("{}\n--- mapped_lines has {} entries for {} preprocessed lines\n--- source\n{}\n--- preprocessed\n{}", name_of(c), rec.mapped_lines.len(), n_out, main.s, rec.preprocessed));
                    return o;
                }
                for (id, file, allowed) in &markers {
                    let re_hit = plines.iter().position(|l| {
                        l.split(|ch: char| !(ch.is_ascii_alphanumeric() || ch == '_')).any(|w| w == id)
                    });
                    match re_hit {
                        Some(i) if i < rec.mapped_lines.len() => {
                            let (f, l, _) = &rec.mapped_lines[i];
                            if f != file || !allowed.contains(l) {
                                o.fail(coord.clone(), "linemap-entry", format!("{}\n--- declaration {} is mapped to {}:{} but is written on line(s) {:?} of {}\n--- source\n{}\n--- preprocessed\n{}", name_of(c), id, f, l, allowed, file, main.s, rec.preprocessed));
                                return o;
                            }
                        }
                        _ => {
                            o.fail(coord.clone(), "declaration-lost", format!("{}\n--- declaration {} does not appear in the preprocessed text\n--- source\n{}\n--- preprocessed\n{}", name_of(c), id, main.s, rec.preprocessed));
                            return o;
                        }
                    }
                }
            }
            other => {
                o.fail(coord.clone(), "valid-prefix-rejected", format!("{}\n--- a valid program was not compiled: {:?}\n--- source\n{}", name_of(c), short(&other), main.s));
            }
        }
        o.sample = json!({"case": name_of(c)});
        return o;
    }
    let b = build(c);
    for (n, body) in &b.files {
        std::fs::write(format!("{}/{}", sub, n), body).expect("write include");
    }
    let (out, _) = drv::compile_src(b.main.as_bytes(), &["-O0", "-I", sub.as_str()]);
    for (n, _) in &b.files {
        let _ = std::fs::remove_file(format!("{}/{}", sub, n));
    }
    let show = |b: &Built| {
        let mut s = format!("--- in.c\n{}\n", b.main);
        for (n, body) in &b.files {
            if *n == b.expect_file {
                s.push_str(&format!("--- {}\n{}\n", n, body));
            }
        }
        s
    };
    match out {
        Outcome::Err(e) => {
            o.nontrivial = true;
            o.outcomes.push(hash64(&format!("{}{}", e.kind, e.msg)));
            let file_ok = e.filename == b.expect_file;
            let line_ok = b.expect_lines.contains(&e.line);
            let inc_ok = e.included_in == b.expect_included_in;
            if !(e.kind == "Syntax" || e.kind == "Compiler") {
                o.fail(coord.clone(), "unlocated-error", format!("{}\n--- error without location: {:?}\n{}", name_of(c), e, show(&b)));
            } else if !file_ok || !line_ok {
                o.fail(coord.clone(), "wrong-location", format!("{}\n--- reported {}:{} ({}), the defect is on line {:?} of {}\n{}", name_of(c), e.filename, e.line, e.msg, b.expect_lines, b.expect_file, show(&b)));
            } else if !inc_ok {
                o.fail(coord.clone(), "wrong-included-in", format!("{}\n--- reported included_in {:?}, expected {:?} ({})\n{}", name_of(c), e.included_in, b.expect_included_in, e.msg, show(&b)));
            }
        }
        Outcome::Ok(_) => {
            o.fail(coord.clone(), "defect-accepted", format!("{}\n--- the defective program was accepted\n{}", name_of(c), show(&b)));
        }
        Outcome::Panic { loc, msg } => {
            o.fail(coord.clone(), "panic", format!("{}\n--- panic at {}: {}\n{}", name_of(c), loc, msg, show(&b)));
        }
    }
    let _ = b.global_kind;
    let _ = &b.markers;
    o.sample = json!({"case": name_of(c), "expected": {"file": b.expect_file, "lines": b.expect_lines, "included_in": b.expect_included_in}, "source": b.main});
    o
}

fn short(o: &Outcome) -> String {
    match o {
        Outcome::Ok(_) => "Ok".into(),
        Outcome::Err(e) => format!("Err({} line {} of {}: {})", e.kind, e.line, e.filename, e.msg),
        Outcome::Panic { loc, msg } => format!("Panic at {}: {}", loc, msg),
    }
}

pub struct C06 {
    q: OnceLock<Vec<LCase>>,
    t: OnceLock<Vec<LCase>>,
}

impl C06 {
    pub fn new() -> C06 {
        C06 { q: OnceLock::new(), t: OnceLock::new() }
    }
    fn cs(&self, tier: Tier) -> &Vec<LCase> {
        match tier {
            Tier::Quick => self.q.get_or_init(|| cases(tier)),
            Tier::Thorough => self.t.get_or_init(|| cases(tier)),
        }
    }
}

impl Check for C06 {
    fn prop(&self) -> &'static str {
        "C06"
    }
    fn level(&self) -> &'static str {
        "exploration"
    }
    fn rule(&self) -> String {
        "Sources are assembled from (i) every sequence of <= 2 (quick) / <= 3 (thorough) line-shifting prefix constructs out of 19 (blank line, // comment, 1- and 3-line block comment, block comment with a URL, block comment ending mid-line before a declaration, declaration spliced over two lines, #define, #if 0 block, #ifdef/#else block, #include of a C header with and without final newline, #include of an assembler file, a declaration using a macro, a declaration with a string literal, a CR-LF line, #include of an assembler file without final newline, a declaration full of non-ASCII character constants), (ii) one offending line out of 16 error kinds (preprocessor: #error, unknown directive, unterminated string, missing include, #if on undefined name; parser: bad declaration, bad statement; semantic: unknown identifier, redefinition, constant division by zero, short pointer; code generation: subscript on scalar, too many parameters, break outside loop, csleep(11), deref of a non-pointer), (iii) its placement: main file, inside an included file that itself has the prefixes, on a spliced logical line, as last line without newline. The generator knows the physical line and file of the offending token; the returned Error::{Syntax,Compiler} must carry that file, one of the admissible lines and the right included_in. Side oracle on the same prefixes without defect: mapped_lines has one entry per preprocessed line and every marker declaration is mapped to the physical line it is written on. Non-trivial = a located error was produced; distinct = distinct (prefix sequence, kind, placement).".into()
    }
    fn assumptions(&self) -> Vec<String> {
        vec!["for parser errors the line after the offending line is also admissible (pest reports the furthest position reached)".into(), "for a spliced statement either physical line is admissible".into()]
    }
    fn n_cases(&self, tier: Tier) -> usize {
        self.cs(tier).len()
    }
    fn case_ident(&self, tier: Tier, idx: usize) -> String {
        format!("C06|{}", name_of(&self.cs(tier)[idx]))
    }
    fn run_case(&self, tier: Tier, idx: usize) -> CaseOutcome {
        run(&self.cs(tier)[idx])
    }
    fn bounds(&self, tier: Tier) -> Value {
        json!({"prefix_constructs": PREFIX_NAMES, "error_kinds": KIND_NAMES, "max_prefix_sequence": if tier == Tier::Quick { 2 } else { 3 }, "placements": ["main file", "included file", "spliced statement", "no final newline", "statement starting in column 1"]})
    }
}
