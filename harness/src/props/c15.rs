//! C15 — equivalent source forms behave identically (differential over AST rewrite rules).

use crate::ast::*;
use crate::corpus::{self, CaseSpec};
use crate::engine::{case_key, CaseOutcome, Check, Status, Tier};
use crate::exec::{self, PrepFail};
use crate::gen2::{case_from_text, D0_TEXT};
use crate::sem::{self, SemCase};
use serde_json::{json, Value};
use std::sync::OnceLock;

#[derive(Clone, Copy, Debug, PartialEq, Eq)]
pub enum Rule {
    Commute,
    FlipCompare,
    OpAssign,
    IncToAdd,
    NegateIf,
    ForToWhile,
    SwitchToIf,
}

pub const RULES: [Rule; 7] = [Rule::Commute, Rule::FlipCompare, Rule::OpAssign, Rule::IncToAdd, Rule::NegateIf, Rule::ForToWhile, Rule::SwitchToIf];

fn pure(e: &E) -> bool {
    match e {
        E::Lit(..) | E::CharLit(..) | E::Var(_) | E::Deref(_) | E::AddrOf(_) | E::Sizeof(..) => true,
        E::Idx(_, i) => pure(i),
        E::Un(_, a) | E::Paren(a) => pure(a),
        E::Bin(_, a, b) => pure(a) && pure(b),
        E::Cond(c, a, b) => pure(c) && pure(a) && pure(b),
        E::Comma(a, b) => pure(a) && pure(b),
        E::Asg(..) | E::Inc { .. } | E::Call(..) => false,
    }
}

fn simple_lvalue(e: &E) -> bool {
    matches!(e, E::Var(_)) || matches!(e, E::Idx(_, i) if matches!(**i, E::Var(_) | E::Lit(..)))
}

struct Ctx {
    rule: Rule,
    counter: usize,
    target: usize,
}

impl Ctx {
    fn hit(&mut self) -> bool {
        let h = self.counter == self.target;
        self.counter += 1;
        h
    }
}

fn rw_e(e: &E, cx: &mut Ctx) -> E {
    // rewrite children first (pre-order numbering of sites happens at the node itself)
    match e {
        E::Bin(op, a, b) => {
            let applies = match cx.rule {
                Rule::Commute => matches!(op, BinOp::Add | BinOp::And | BinOp::Or | BinOp::Xor) && pure(a) && pure(b),
                Rule::FlipCompare => matches!(op, BinOp::Lt | BinOp::Le | BinOp::Gt | BinOp::Ge) && pure(a) && pure(b),
                _ => false,
            };
            if applies && cx.hit() {
                return match cx.rule {
                    Rule::Commute => E::Bin(*op, b.clone(), a.clone()),
                    _ => {
                        let nop = match op {
                            BinOp::Lt => BinOp::Gt,
                            BinOp::Le => BinOp::Ge,
                            BinOp::Gt => BinOp::Lt,
                            _ => BinOp::Le,
                        };
                        E::Bin(nop, b.clone(), a.clone())
                    }
                };
            }
            E::Bin(*op, Box::new(rw_e(a, cx)), Box::new(rw_e(b, cx)))
        }
        E::Un(o, a) => E::Un(*o, Box::new(rw_e(a, cx))),
        E::Paren(a) => E::Paren(Box::new(rw_e(a, cx))),
        E::Idx(n, i) => E::Idx(n.clone(), Box::new(rw_e(i, cx))),
        E::Asg(o, l, r) => E::Asg(*o, Box::new(rw_e(l, cx)), Box::new(rw_e(r, cx))),
        E::Inc { pre, inc, e } => E::Inc { pre: *pre, inc: *inc, e: Box::new(rw_e(e, cx)) },
        E::Cond(c, a, b) => E::Cond(Box::new(rw_e(c, cx)), Box::new(rw_e(a, cx)), Box::new(rw_e(b, cx))),
        E::Comma(a, b) => E::Comma(Box::new(rw_e(a, cx)), Box::new(rw_e(b, cx))),
        E::Call(f, args) => E::Call(f.clone(), args.iter().map(|a| rw_e(a, cx)).collect()),
        x => x.clone(),
    }
}

fn has_continue(s: &S) -> bool {
    match s {
        S::Continue => true,
        S::If(_, a, b) => has_continue(a) || b.as_ref().map(|b| has_continue(b)).unwrap_or(false),
        S::Block(v) => v.iter().any(has_continue),
        S::Label(_, s) => has_continue(s),
        S::Switch(_, cs) => cs.iter().any(|c| c.body.iter().any(has_continue)),
        // continue inside an inner loop binds to that loop
        _ => false,
    }
}

fn has_decl(s: &S) -> bool {
    match s {
        S::Decl(_) => true,
        S::Block(v) => v.iter().any(has_decl),
        _ => false,
    }
}

fn switch_to_if(e: &E, cases: &[Case]) -> Option<S> {
    if !matches!(e, E::Var(_)) {
        return None;
    }
    // every non-default group must end with break and contain no other break; default last
    let mut arms: Vec<(Option<E>, Vec<S>)> = Vec::new();
    for (k, c) in cases.iter().enumerate() {
        let last = k + 1 == cases.len();
        let mut body = c.body.clone();
        let ends_break = matches!(body.last(), Some(S::Break));
        if ends_break {
            body.pop();
        } else if !last {
            return None; // fall-through
        }
        fn has_break(s: &S) -> bool {
            match s {
                S::Break => true,
                S::If(_, a, b) => has_break(a) || b.as_ref().map(|b| has_break(b)).unwrap_or(false),
                S::Block(v) => v.iter().any(has_break),
                _ => false,
            }
        }
        if body.iter().any(has_break) {
            return None;
        }
        if c.is_default {
            if !last {
                return None;
            }
            arms.push((None, body));
        } else {
            if c.labels.is_empty() {
                return None;
            }
            let mut cond: Option<E> = None;
            for l in &c.labels {
                let t = bin(BinOp::Eq, e.clone(), lit(*l));
                cond = Some(match cond {
                    None => t,
                    Some(p) => bin(BinOp::LOr, p, t),
                });
            }
            arms.push((cond, body));
        }
    }
    let mut out: Option<S> = None;
    for (cond, body) in arms.into_iter().rev() {
        out = Some(match cond {
            None => S::Block(body),
            Some(c) => S::If(c, Box::new(S::Block(body)), out.map(Box::new)),
        });
    }
    out
}

fn rw_s(s: &S, cx: &mut Ctx) -> S {
    match s {
        S::Expr(e) => {
            match (cx.rule, e) {
                (Rule::OpAssign, E::Asg(Some(op), l, r)) if simple_lvalue(l) && pure(r) => {
                    if cx.hit() {
                        return S::Expr(E::Asg(None, l.clone(), Box::new(E::Bin(*op, l.clone(), r.clone()))));
                    }
                }
                (Rule::IncToAdd, E::Inc { inc, e: t, .. }) if simple_lvalue(t) => {
                    if cx.hit() {
                        return S::Expr(E::Asg(Some(if *inc { BinOp::Add } else { BinOp::Sub }), t.clone(), Box::new(lit(1))));
                    }
                }
                _ => {}
            }
            S::Expr(rw_e(e, cx))
        }
        S::If(c, a, b) => {
            if cx.rule == Rule::NegateIf && b.is_some() && cx.hit() {
                return S::If(E::Un(UnOp::LNot, Box::new(c.clone())), b.clone().unwrap(), Some(a.clone()));
            }
            S::If(rw_e(c, cx), Box::new(rw_s(a, cx)), b.as_ref().map(|b| Box::new(rw_s(b, cx))))
        }
        S::While(c, b) => S::While(rw_e(c, cx), Box::new(rw_s(b, cx))),
        S::DoWhile(b, c) => S::DoWhile(Box::new(rw_s(b, cx)), rw_e(c, cx)),
        S::For(i, c, u, b) => {
            if cx.rule == Rule::ForToWhile && c.is_some() && !has_continue(b) && !has_decl(b) && cx.hit() {
                let mut body = vec![(**b).clone()];
                if let Some(u) = u {
                    body.push(S::Expr(u.clone()));
                }
                let w = S::While(c.clone().unwrap(), Box::new(S::Block(body)));
                return match i {
                    Some(i) => S::Block(vec![S::Expr(i.clone()), w]),
                    None => w,
                };
            }
            S::For(i.as_ref().map(|x| rw_e(x, cx)), c.as_ref().map(|x| rw_e(x, cx)), u.as_ref().map(|x| rw_e(x, cx)), Box::new(rw_s(b, cx)))
        }
        S::Switch(e, cases) => {
            if cx.rule == Rule::SwitchToIf {
                if let Some(r) = switch_to_if(e, cases) {
                    if cx.hit() {
                        return r;
                    }
                }
            }
            S::Switch(rw_e(e, cx), cases.iter().map(|c| Case { labels: c.labels.clone(), is_default: c.is_default, body: c.body.iter().map(|s| rw_s(s, cx)).collect() }).collect())
        }
        S::Return(Some(e)) => S::Return(Some(rw_e(e, cx))),
        S::Block(v) => S::Block(v.iter().map(|s| rw_s(s, cx)).collect()),
        S::Label(l, s) => S::Label(l.clone(), Box::new(rw_s(s, cx))),
        x => x.clone(),
    }
}

pub fn rewrite(p: &Program, rule: Rule, target: usize) -> (Program, usize) {
    let mut cx = Ctx { rule, counter: 0, target };
    let mut q = p.clone();
    for f in q.funcs.iter_mut() {
        f.body = f.body.iter().map(|s| rw_s(s, &mut cx)).collect();
    }
    (q, cx.counter)
}

/// dedicated template pairs: register index versus constant index, call versus body in place
pub fn template_pairs() -> Vec<(&'static str, String, String)> {
    let mut v = Vec::new();
    for k in 0..4 {
        for arr in ["arr", "tab"] {
            v.push(("index-register-vs-constant", format!("X = {}; r = {}[X];", k, arr), format!("X = {}; r = {}[{}];", k, arr, k)));
            v.push(("index-register-vs-constant", format!("Y = {}; r = {}[Y] + a;", k, arr), format!("Y = {}; r = {}[{}] + a;", k, arr, k)));
            v.push(("index-register-vs-constant", format!("X = {}; if ({}[X] == b) r = 1; else r = 2;", k, arr), format!("X = {}; if ({}[{}] == b) r = 1; else r = 2;", k, arr, k)));
        }
        v.push(("index-register-vs-constant", format!("X = {}; arr[X] = a;", k), format!("X = {}; arr[{}] = a;", k, k)));
        v.push(("index-register-vs-constant", format!("Y = {}; arr[Y] += b;", k), format!("Y = {}; arr[{}] += b;", k, k)));
        v.push(("index-register-vs-constant", format!("X = {}; arr[X]++;", k), format!("X = {}; arr[{}]++;", k, k)));
        v.push(("index-register-vs-constant", format!("X = {}; sarr[X] = s;", k % 2), format!("X = {}; sarr[{}] = s;", k % 2, k % 2)));
    }
    // ++x versus x += 1 (and --x versus x -= 1) right after an operation that leaves a carry, right before a test
    for pre in ["c = a - b;", "c = b - a;", "c = a + b;", "c = a << 1;", "if (a < b) c = 1;"] {
        for (inc, add) in [("++b;", "b += 1;"), ("b++;", "b += 1;"), ("--b;", "b -= 1;"), ("arr[X]++;", "arr[X] += 1;"), ("s++;", "s += 1;"), ("s--;", "s -= 1;")] {
            let v_ = if inc.contains("arr") { "arr[X]" } else if inc.contains('s') { "s" } else { "b" };
            for test in ["{} > 0", "{} <= 0", "{} >= 1", "{} == 0", "{} < 1", "{} != 0"] {
                let t = test.replace("{}", v_);
                v.push(("increment-vs-add-one", format!("{} {} if ({}) r = 1; else r = 2;", pre, inc, t), format!("{} {} if ({}) r = 1; else r = 2;", pre, add, t)));
            }
        }
    }
    // a < b versus b > a on 16-bit operands (equal and different high bytes come from the input domain)
    for (x, y) in [("s", "t"), ("u", "s"), ("s", "u"), ("sarr[X]", "s")] {
        for (o1, o2) in [("<", ">"), ("<=", ">="), (">", "<"), (">=", "<=")] {
            v.push(("flip-16-bit-comparison", format!("if ({} {} {}) r = 1; else r = 2;", x, o1, y), format!("if ({} {} {}) r = 1; else r = 2;", y, o2, x)));
            v.push(("flip-16-bit-comparison", format!("r = 0; while ({} {} {}) {{ r++; break; }}", x, o1, y), format!("r = 0; while ({} {} {}) {{ r++; break; }}", y, o2, x)));
        }
    }
    // switch with case groups of several labels versus the equivalent if-chain
    for sc in ["a", "a & 3", "a + 1", "X", "arr[X]"] {
        for (l1, l2) in [(1, 0), (0, 1), (2, 0), (0, 255), (5, 1)] {
            v.push((
                "switch-group-vs-if-chain",
                format!("switch ({}) {{ case {}: case {}: r = 1; break; default: r = 9; }}", sc, l1, l2),
                format!("if (({}) == {} || ({}) == {}) r = 1; else r = 9;", sc, l1, sc, l2),
            ));
            v.push((
                "switch-group-vs-if-chain",
                format!("switch ({}) {{ case 7: r = 3; break; case {}: case {}: r = 1; break; }}", sc, l1, l2),
                format!("if (({}) == 7) r = 3; else if (({}) == {} || ({}) == {}) r = 1;", sc, sc, l1, sc, l2),
            ));
        }
    }
    let fns = "void f0() { c = c + 1; }\nchar f1() { return a + 1; }\nchar f2(char v) { return v + b; }\nvoid f4(char v) { arr[X] = v; }\nchar f9(char v) { if (v == 3) return 0; return v; }\n";
    for (call, inplace) in [
        ("f0();", "c = c + 1;"),
        ("f0(); f0();", "c = c + 1; c = c + 1;"),
        ("r = f1();", "r = a + 1;"),
        ("r = f2(a);", "r = a + b;"),
        ("r = f2(3);", "r = 3 + b;"),
        ("f4(a);", "arr[X] = a;"),
        ("if (f1()) r = 1; else r = 2;", "if (a + 1) r = 1; else r = 2;"),
        ("r = 0; for (X = 0; X < 3; X++) r += f2(X);", "r = 0; for (X = 0; X < 3; X++) r += X + b;"),
        ("a = 1; f0(); if (a) r = 1;", "a = 1; c = c + 1; if (a) r = 1;"),
        ("b = a; f0(); if (b) r = 1; else r = 2;", "b = a; c = c + 1; if (b) r = 1; else r = 2;"),
        ("r = f9(a);", "if (a == 3) r = 0; else r = a;"),
    ] {
        v.push(("call-vs-body", format!("{}@@{}", fns, call), format!("{}@@{}", fns, inplace)));
        let fns_inline = fns.replace("void f0", "inline void f0").replace("char f1", "inline char f1").replace("char f2", "inline char f2").replace("void f4", "inline void f4").replace("char f9", "inline char f9");
        v.push(("inline-call-vs-body", format!("{}@@{}", fns_inline, call), format!("{}@@{}", fns, inplace)));
    }
    v
}

pub enum PairSpec {
    Rewrite { base: usize, rule: Rule, site: usize },
    Template(usize),
}

pub struct C15 {
    q: OnceLock<(Vec<CaseSpec>, Vec<PairSpec>)>,
    t: OnceLock<(Vec<CaseSpec>, Vec<PairSpec>)>,
}

fn build(tier: Tier) -> (Vec<CaseSpec>, Vec<PairSpec>) {
    let all = corpus::ref_cases(tier);
    let mut bases: Vec<CaseSpec> = Vec::new();
    for (k, c) in all.into_iter().enumerate() {
        let fam = c.family();
        let keep = match fam.as_str() {
            "F1.d1" | "F1.w16" | "F1.prec" => true,
            "F1.d2" => {
                if tier == Tier::Quick {
                    k % 8 == 0
                } else {
                    k % 2 == 0
                }
            }
            "F4.seq" => {
                if let CaseSpec::Seq(s) = &c {
                    s.len() <= 2 || tier == Tier::Thorough
                } else {
                    true
                }
            }
            f if f.starts_with("F2") || f.starts_with("F3") || f.starts_with("F7") || f.starts_with("F6") || f == "F1.nest" || f == "F1.sext" || f == "F1.w16k" => true,
            _ => false,
        };
        if keep {
            bases.push(c);
        }
    }
    let mut pairs = Vec::new();
    for (bi, b) in bases.iter().enumerate() {
        let case = b.build();
        for r in RULES {
            let (_, n) = rewrite(&case.prog, r, usize::MAX);
            for site in 0..n.min(3) {
                pairs.push(PairSpec::Rewrite { base: bi, rule: r, site });
            }
        }
    }
    for k in 0..template_pairs().len() {
        pairs.push(PairSpec::Template(k));
    }
    (bases, pairs)
}

fn prep_tag(e: &PrepFail) -> String {
    match e {
        PrepFail::Rejected(er) => format!("rejected: {}", er.msg),
        PrepFail::Panic { loc, .. } => format!("panic@{}", loc),
        PrepFail::AsmErrors(er, _) => format!("asm-error: {}", er[0]),
        PrepFail::Layout(_) => "layout".into(),
        PrepFail::Bind(b) => format!("bind: {}", b),
    }
}

pub fn run_pair(name: &str, a: &SemCase, b: &SemCase) -> CaseOutcome {
    let ident = format!("C15|{}|{}|{}", name, a.source(), b.source());
    let mut o = CaseOutcome::new(ident.clone());
    // the rewritten program uses the same objects: same input domain
    for opt in ["-O1", "-O0"] {
        let pa = match sem::prepare(a, opt) {
            Ok(p) => p,
            Err(e) => {
                o.count(&format!("original {}", prep_tag(&e).chars().take(40).collect::<String>()), 1);
                o.status = Status::Rejected;
                continue;
            }
        };
        let pb = match sem::prepare(b, opt) {
            Ok(p) => p,
            Err(e) => {
                o.count(&format!("rewritten {}", prep_tag(&e).chars().take(40).collect::<String>()), 1);
                o.status = Status::Rejected;
                continue;
            }
        };
        o.status = Status::Pass;
        let ra = match sem::run_emu_all(a, &pa, exec::DEFAULT_BUDGET) {
            Ok(r) => r,
            Err(e) => {
                o.status = Status::Skipped(e);
                return o;
            }
        };
        let mut b2 = b.clone();
        b2.inputs = a.inputs.clone();
        let rb = match sem::run_emu_all(&b2, &pb, exec::DEFAULT_BUDGET) {
            Ok(r) => r,
            Err(e) => {
                o.status = Status::Skipped(e);
                return o;
            }
        };
        o.nontrivial = true;
        o.evals += (ra.results.len() + rb.results.len()) as u64;
        for (k, (sa, fa)) in ra.results.iter().enumerate() {
            let (sb, fb) = &rb.results[k];
            if k < 4 {
                o.outcomes.push(exec::hash_state(fa));
            }
            // temporaries of the generator (cctmp) are excluded by the snapshot; locals keep their addresses only
            // if the declarations are the same, which the rules guarantee
            let same = if name.contains("call-vs-body") { exec::states_equal_on_globals(&pa, fa, &pb, fb) } else { exec::states_equal_ignoring_hw(fa, fb) };
            // two runs that both exhaust the budget (or both fault) are not compared state by state: where they
            // were interrupted is not an observable of the program
            if sa != sb || (*sa == crate::emu65::Stop::Returned && !same) {
                o.fail(
                    case_key(&format!("{}|{}", ident, opt)),
                    "spellings-differ",
                    format!(
                        "{} {} tags={}\n--- source\n{}--- rewritten ({})\n{}--- input [{}]: (emu = original, ref = rewritten) stop {:?}/{:?} {}\n--- asm original\n{}--- asm rewritten\n{}",
                        a.family,
                        opt,
                        a.tags.join(","),
                        a.source(),
                        name,
                        b.source(),
                        sem::fmt_init(&ra.inits[k]),
                        sa,
                        sb,
                        exec::describe_diff(&pa, fa, fb),
                        sem::func_texts(&pa),
                        sem::func_texts(&pb)
                    ),
                );
                break;
            }
        }
    }
    o.sample = json!({"rule": name, "original": a.source(), "rewritten": b.source()});
    o
}

impl C15 {
    pub fn new() -> C15 {
        C15 { q: OnceLock::new(), t: OnceLock::new() }
    }
    fn data(&self, tier: Tier) -> &(Vec<CaseSpec>, Vec<PairSpec>) {
        match tier {
            Tier::Quick => self.q.get_or_init(|| build(tier)),
            Tier::Thorough => self.t.get_or_init(|| build(tier)),
        }
    }
    fn pair(&self, tier: Tier, idx: usize) -> (String, SemCase, SemCase) {
        let (bases, pairs) = self.data(tier);
        match &pairs[idx] {
            PairSpec::Rewrite { base, rule, site } => {
                let a = bases[*base].build();
                let (p2, _) = rewrite(&a.prog, *rule, *site);
                let mut b = a.clone();
                b.prog = p2;
                (format!("{:?}@{}", rule, site), a, b)
            }
            PairSpec::Template(k) => {
                let (name, x, y) = &template_pairs()[*k];
                let mk = |t: &str| -> SemCase {
                    let (fns, body) = match t.split_once("@@") {
                        Some((f, b)) => (f.to_string(), b.to_string()),
                        None => (String::new(), t.to_string()),
                    };
                    let src = format!("{}{}void main()\n{{\n{}\n}}\n", D0_TEXT, fns, body);
                    let small: Vec<(&str, &[i32])> = vec![("a", &[0, 1, 2, 3, 0x80, 255]), ("b", &[0, 1, 0x11, 0xff]), ("c", &[0, 7, 255]), ("r", &[0]), ("X", &[0, 1, 2]), ("Y", &[0, 1, 3]), ("s", &[0, 1, 0x100, 0x101, 0x1234, 0x8000]), ("t", &[0, 1, 0x100, 0x1ff, 0x1234]), ("u", &[0, 0x100, 0x1ff, 0xffff])];
                    case_from_text("C15.tmpl", &src, &small, vec!["template"], 300)
                };
                let a = mk(x);
                let mut b = mk(y);
                b.inputs = a.inputs.clone();
                (name.to_string(), a, b)
            }
        }
    }
}

impl Check for C15 {
    fn prop(&self) -> &'static str {
        "C15"
    }
    fn level(&self) -> &'static str {
        "exploration"
    }
    fn rule(&self) -> String {
        "Base programs: families F1 (expressions), F2 (control flow, switch arrangements), F3, F4 (statement sequences), F7. Seven meaning-preserving AST rewrite rules are applied at each of the first three applicable sites of every program: commute the operands of + & | ^ (side-effect-free operands); a < b <-> b > a and a <= b <-> b >= a; x op= e <-> x = x op e; statement-level ++x / x++ / --x / x-- <-> x += 1 / x -= 1; if (c) A else B <-> if (!c) B else A; for <-> while (bodies without continue); switch <-> if-chain (groups ending in break, default last). Plus template pairs: indexing through a register holding k versus the constant k (read, write, +=, ++, compare, 16-bit arrays), a call versus its body written in place (also with the function marked inline), ++x versus x += 1 between an operation that leaves a carry and a test of x, flipped 16-bit comparisons over inputs with equal and different high bytes, and switches with multi-label case groups versus if-chains. Both spellings are compiled at -O1 and -O0; if both are accepted they are co-executed from every enumerated input and must end in the same RAM/X/Y. Non-trivial = both spellings executed; distinct = distinct (original, rewritten) pair.".into()
    }
    fn assumptions(&self) -> Vec<String> {
        vec!["purely differential: no reference model; a spelling the compiler rejects is counted, not judged".into()]
    }
    fn n_cases(&self, tier: Tier) -> usize {
        self.data(tier).1.len()
    }
    fn case_ident(&self, tier: Tier, idx: usize) -> String {
        let (n, a, b) = self.pair(tier, idx);
        format!("C15|{}|{}|{}", n, a.source(), b.source())
    }
    fn run_case(&self, tier: Tier, idx: usize) -> CaseOutcome {
        let (n, a, b) = self.pair(tier, idx);
        run_pair(&n, &a, &b)
    }
    fn bounds(&self, tier: Tier) -> Value {
        let (bases, pairs) = self.data(tier);
        json!({"base_programs": bases.len(), "pairs": pairs.len(), "rules": RULES.iter().map(|r| format!("{:?}", r)).collect::<Vec<_>>(), "max_sites_per_rule": 3, "template_pairs": template_pairs().len()})
    }
}
