pub mod c01;
pub mod c02;
pub mod c03;
pub mod c05;
pub mod c06;
pub mod c07;
pub mod c08;
pub mod c09;
pub mod c10;
pub mod c11;
pub mod c13;
pub mod c14;
pub mod c15;
pub mod c16;
pub mod c17;
pub mod c18;

use crate::engine::Check;

pub fn get(prop: &str) -> Option<Box<dyn Check>> {
    match prop {
        "C01" => Some(Box::new(c01::C01::new())),
        "C02" => Some(Box::new(c02::C02::new())),
        "C03" => Some(Box::new(c03::C03::new())),
        "C04" => Some(Box::new(c13::AsmCheck::new(c13::Which::C04))),
        "C05" => Some(Box::new(c05::C05)),
        "C06" => Some(Box::new(c06::C06::new())),
        "C07" => Some(Box::new(c07::C07)),
        "C08" => Some(Box::new(c08::C08::new())),
        "C09" => Some(Box::new(c09::C09::new())),
        "C10" => Some(Box::new(c10::C10::new())),
        "C11" => Some(Box::new(c11::C11::new())),
        "C12" => Some(Box::new(c14::C12::new())),
        "C14" => Some(Box::new(c14::C14::new())),
        "C13" => Some(Box::new(c13::AsmCheck::new(c13::Which::C13))),
        "C15" => Some(Box::new(c15::C15::new())),
        "C16" => Some(Box::new(c16::C16::new())),
        "C17" => Some(Box::new(c17::C17::new())),
        "C18" => Some(Box::new(c18::C18::new())),
        _ => None,
    }
}
