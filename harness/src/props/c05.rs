//! C05 — output is a deterministic function of source and options.
//! Fresh processes with harness-supplied hash seeds (LD_PRELOAD shim on getrandom) and
//! in-process compilation histories.

use crate::drv::{self, Outcome};
use crate::engine::{hash64, CaseOutcome, Check, Status, Tier};
use serde_json::{json, Value};
use std::collections::{BTreeSet, HashMap};

pub const CORPUS: [&str; 49] = [
    // long-branch repairs (labels numbered by the repair pass)
    "char v, w;\nvoid main() { do { v = w + 3; v = w + 3; v = w + 3; v = w + 3; v = w + 3; v = w + 3; v = w + 3; v = w + 3; v = w + 3; v = w + 3; v = w + 3; v = w + 3; v = w + 3; v = w + 3; v = w + 3; v = w + 3; v = w + 3; v = w + 3; v = w + 3; v = w + 3; Y--; } while (Y); }\n",
    "char v, w;\nvoid f() { if (v) { v = w + 3; v = w + 3; v = w + 3; v = w + 3; v = w + 3; v = w + 3; v = w + 3; v = w + 3; v = w + 3; v = w + 3; v = w + 3; v = w + 3; v = w + 3; v = w + 3; v = w + 3; v = w + 3; v = w + 3; v = w + 3; v = w + 3; v = w + 3; } }\nvoid main() { do { v = w + 3; v = w + 3; v = w + 3; v = w + 3; v = w + 3; v = w + 3; v = w + 3; v = w + 3; v = w + 3; v = w + 3; v = w + 3; v = w + 3; v = w + 3; v = w + 3; v = w + 3; v = w + 3; v = w + 3; v = w + 3; v = w + 3; v = w + 3; Y--; } while (Y); f(); if (w) { v = w + 3; v = w + 3; v = w + 3; v = w + 3; v = w + 3; v = w + 3; v = w + 3; v = w + 3; v = w + 3; v = w + 3; v = w + 3; v = w + 3; v = w + 3; v = w + 3; v = w + 3; v = w + 3; v = w + 3; v = w + 3; v = w + 3; v = w + 3; } }\n",
    // string literals
    "char r;\nchar k(char *p) { return p[Y]; }\nvoid main() { r = k(\"ab\") | k(\"zz\"); }\n",
    "char r;\nchar k(char *p, char *q) { return p[Y] + q[Y]; }\nvoid main() { r = k(\"one\", \"two\") + k(\"three\", \"four\"); }\n",
    "const char *tb[] = {\"aa\", \"bb\", \"cc\", \"dd\"};\nchar *q;\nvoid main() { q = tb[X]; }\n",
    "char r;\nchar k(char *p) { return p[Y]; }\nchar j(char v, char *p) { return v + p[Y]; }\nvoid main() { r = j(k(\"inner\"), \"outer\"); }\n",
    "char r;\nvoid main() { char *s = \"ab\"; char *t = \"cd\"; r = s[Y]; r = t[Y]; }\n",
    "const char *s1 = \"x\";\nconst char *s2 = \"y\";\nconst char s3[] = \"z\";\nchar r;\nchar k(char *p) { return p[Y]; }\nvoid main() { r = k(\"w\"); r = k(\"v\") + 1; }\n",
    "char r;\nchar k(char *p) { return p[Y]; }\nvoid main() { if (k(\"a\") == k(\"b\")) r = k(\"c\"); else r = k(\"d\"); }\n",
    // prototypes and definitions
    "char a;\nvoid g();\nvoid f() { g(); }\nvoid g() { a++; }\nvoid h() { a--; }\nvoid main() { f(); h(); }\n",
    "char a;\nchar g(char v, char w);\nchar f(char v) { return g(v, 1); }\nchar g(char v, char w) { return v + w; }\nchar h(char z) { return z; }\nvoid main() { a = f(2); a = h(a); }\n",
    "char a;\nvoid p1();\nvoid p2();\nvoid p3();\nvoid p3() { a = 3; }\nvoid p1() { a = 1; }\nvoid q1() { a = 4; }\nvoid p2() { a = 2; }\nvoid q2() { a = 5; }\nvoid main() { p1(); p2(); p3(); q1(); q2(); }\n",
    "char a;\nchar g(char x, char y, char z);\nvoid main() { a = g(1, 2, 3); }\nchar g(char x, char y, char z) { char t; t = x + y; return t + z; }\nchar late(char q) { return q; }\n",
    // many variables and functions
    "char v0, v1, v2, v3, v4, v5, v6, v7, v8, v9;\nshort w0, w1, w2, w3;\nchar t0[3], t1[3], t2[3];\nconst char c0[2] = {1, 2};\nconst char c1[2] = {3, 4};\nvoid main() { v0 = v1 + v2; w0 = w1; t0[X] = c0[Y]; }\n",
    "char a;\nvoid f0() { a = 0; }\nvoid f1() { a = 1; }\nvoid f2() { a = 2; }\nvoid f3() { a = 3; }\nvoid f4() { a = 4; }\nvoid f5() { a = 5; }\nvoid f6() { a = 6; }\nvoid f7() { a = 7; }\nvoid f8() { a = 8; }\nvoid f9() { a = 9; }\nvoid main() { f9(); f0(); f5(); f3(); }\n",
    "char a;\nvoid l0() { char x0; char y0; x0 = 1; y0 = x0; a = y0; }\nvoid l1() { char x1; short y1; x1 = 2; y1 = x1; a = x1; }\nvoid l2(char p, char q) { char z; z = p + q; a = z; }\nvoid main() { l0(); l1(); l2(1, 2); }\n",
    // interrupts
    "char a, b;\nvoid interrupt nmi() { a++; }\nvoid interrupt irq() { b++; }\nvoid main() { a = 0; b = 0; }\n",
    "char a, b, c;\nvoid bump() { c++; }\nvoid tick() { bump(); }\nvoid interrupt nmi() { tick(); }\nvoid interrupt irq() { b++; }\nvoid interrupt brk() { a++; bump(); }\nvoid unused() { a = 9; }\nvoid main() { a = 1; }\n",
    "char n;\nvoid h1() { n = 1; }\nvoid h2() { n = 2; }\nvoid h3() { n = 3; }\nvoid interrupt i1() { h1(); }\nvoid interrupt i2() { h2(); }\nvoid interrupt i3() { h3(); }\nvoid main() { n = 0; }\n",
    // inline, macros
    "char a;\ninline void k1() { a++; }\ninline void k2() { k1(); k1(); }\nvoid main() { k2(); k1(); k2(); }\n",
    "#define A 1\n#define B (A+1)\n#define C (B+A)\n#define F(x) ((x)+C)\n#define G(x, y) (F(x)*F(y))\nconst char r1 = G(1, 2);\nchar r;\nvoid main() { r = F(B) + G(A, C); }\n",
    // memory classes
    "superchip char sa, sb;\nsuperchip short ss;\nbank1 const char bt[2] = {1, 2};\nconst char ct[2] = {3, 4};\nchar *const REG = 0x30;\nchar *const FAR = 0x1234;\nchar z;\nvoid main() { sa = sb; ss++; z = bt[X] + ct[Y]; *REG = z; *FAR = z; }\n",
    // diagnostics
    "char a;\nvoid main() { a = zz; }\n",
    "char a;\nchar a;\nvoid main() { }\n",
    "char a;\nvoid main() { a = ; }\n",
    "#error stop\nvoid main() { }\n",
    "char a;\nvoid f(char v) { a = v; }\nvoid main() { f(1, 2); }\n",
    "const char k = 1 / 0;\nvoid main() { }\n",
    "#include \"c05_missing.h\"\nvoid main() { }\n",
    // control flow / labels (label counters are state)
    "char a, r;\nvoid main() { if (a) r = 1; else r = 2; while (a) a--; for (X = 0; X < 3; X++) r++; do { r--; } while (r); switch (a) { case 1: r = 1; break; default: r = 2; } }\n",
    "char a, r;\nvoid f() { if (a) r = 1; for (X = 0; X < 2; X++) r++; }\nvoid g() { if (a) r = 2; for (Y = 0; Y < 2; Y++) r++; }\nvoid main() { f(); g(); if (r) a = 0; }\n",
    // long branches (fix labels)
    "char a, c;\nvoid main() { if (a) { c = c + 1; c = c + 1; c = c + 1; c = c + 1; c = c + 1; c = c + 1; c = c + 1; c = c + 1; c = c + 1; c = c + 1; c = c + 1; c = c + 1; c = c + 1; c = c + 1; c = c + 1; c = c + 1; c = c + 1; c = c + 1; c = c + 1; c = c + 1; } }\n",
    // warnings
    "char a;\nchar arr[4];\nchar *p;\nvoid main() { a = 300; a = arr[a]; a = *p; }\n",
    // literals inside locals and tables mixed with prototypes
    "char r;\nchar pick(char *p);\nconst char *names[] = {\"n0\", \"n1\"};\nvoid main() { char *l = \"local\"; r = pick(l) + pick(\"arg\"); }\nchar pick(char *p) { return p[Y]; }\n",
    "char r;\nchar k(char *p) { return p[Y]; }\nvoid a1() { r = k(\"a1\"); }\nvoid a2() { r = k(\"a2\") + k(\"a2b\"); }\nvoid a3() { char *x = \"a3\"; r = x[Y]; }\nvoid main() { a1(); a2(); a3(); }\n",
    // sizeof / constants
    "char arr[5];\nshort sarr[3];\nconst char k1 = sizeof(arr);\nconst char k2 = sizeof(sarr) + sizeof(short);\nchar r;\nvoid main() { r = k1 + k2 + sizeof(arr); }\n",
    // included assembler marker
    "char a;\nvoid main() { asm(\"NOP\", 1); asm(\"LDA #1\", 2); a = 1; }\n",
    // scopes
    "char r;\nvoid main() { { char i; i = 1; r = i; } { char i; i = 2; r += i; } { char j; char i; j = 3; i = j; r += i; } }\n",
    "char r;\nvoid f(char i) { char j; j = i; { char i; i = j; r = i; } }\nvoid g(char i) { char j; j = i + 1; r += j; }\nvoid main() { f(1); g(2); }\n",
    // 16-bit and pointers
    "short s, t;\nchar *p, *q;\nchar arr[4];\nvoid main() { s += t; p = arr; q = p; p++; s = p >> 8; }\n",
    // enclosed bank declarations
    "bank1 {\nconst char inb[2] = {1, 2};\nvoid bf() { X = inb[Y]; }\n}\nvoid main() { bf(); }\n",
    // several literals in one local initialiser; prototypes whose rank could collide with variable ranks
    "char pick(char *a, char *b) { return a[Y]; }\nvoid main() { char c = pick(\"left\", \"right\"); char d = pick(\"up\", \"down\"); X = c; Y = d; }\n",
    "char score;\nvoid draw();\nvoid init() { score = 0; }\nvoid draw() { X = score; }\nvoid main() { init(); draw(); }\n",
    "char v1, v2, v3;\nvoid p1();\nchar v4;\nvoid p2();\nvoid q1() { v1 = 1; }\nvoid q2() { v2 = 2; }\nvoid q3() { v3 = 3; }\nvoid p2() { v4 = 4; }\nvoid p1() { v1 = 5; }\nvoid main() { p1(); p2(); q1(); q2(); q3(); }\n",
    // command-line definitions that depend on each other (first line: options for this program)
    "//OPTS: -DBASE=40 -DLIMIT=BASE+2 -DTOP=LIMIT*2\nchar x, y;\nvoid main() { x = LIMIT; y = TOP; }\n",
    "//OPTS: -DTOP=LIMIT*2 -DLIMIT=BASE+2 -DBASE=40\nchar x;\nvoid main() { x = BASE; }\n",
    // the same macro name with different shapes in different programs (state kept between compilations)
    "#define PICK(a) a\nchar x;\nvoid main() { x = PICK(1); }\n",
    "#define PICK(a, b) b\n#define ONLY 3\nchar x;\nvoid main() { x = PICK(1, 2) + ONLY; }\n",
    // empty main with many unused things
    "char u0, u1, u2;\nvoid d0() { u0 = 1; }\nvoid d1() { u1 = 1; d0(); }\ninline void d2() { u2 = 1; }\nvoid main() { }\n",
];

/// what `vcheck c05run` prints for one compilation
pub fn digest_of(idx: usize, full: bool) -> Value {
    let src = CORPUS[idx];
    let mut opts: Vec<&str> = vec!["-O1", "-Wall"];
    if let Some(first) = src.lines().next() {
        if let Some(o) = first.strip_prefix("//OPTS:") {
            opts.extend(o.split_whitespace());
        }
    }
    let (out, tr) = drv::compile_src(src.as_bytes(), &opts);
    let text = match &out {
        Outcome::Ok(r) => format!("OK\nvars={:#?}\nfuncs={:#?}\ntree={:?}\ninuse={:?}\npre={}\nmap={:?}\nasm={:?}", r.vars, r.funcs, r.call_tree, r.in_use, r.preprocessed, r.mapped_lines, r.included_asm),
        Outcome::Err(e) => format!("ERR {:?}", e),
        Outcome::Panic { loc, msg } => format!("PANIC {} {}", loc, msg),
    };
    let mut v = json!({"idx": idx, "digest": format!("{:016x}", hash64(&text)), "literals": tr.lit});
    if full {
        v["text"] = json!(text);
    }
    v
}

/// iteration order of a std HashMap with fixed keys: shows that the seed seam controls RandomState
pub fn probe_order() -> Vec<u32> {
    let mut m: HashMap<u32, u32> = HashMap::new();
    for k in 0..12u32 {
        m.insert(k * 7 + 1, k);
    }
    m.keys().cloned().collect()
}

fn spawn(seed: u64, idxs: &[usize], full: bool) -> Result<Vec<Value>, String> {
    let exe = std::env::current_exe().map_err(|e| e.to_string())?;
    let shim = exe.parent().unwrap().parent().unwrap().join("shim.so");
    if !shim.exists() {
        return Err(format!("shim not built: {}", shim.display()));
    }
    let mut cmd = std::process::Command::new(&exe);
    cmd.arg("c05run");
    if full {
        cmd.arg("--full");
    }
    for i in idxs {
        cmd.arg(i.to_string());
    }
    cmd.env("LD_PRELOAD", &shim).env("VCHECK_HASH_SEED", seed.to_string());
    cmd.current_dir(crate::engine::run_dir());
    let out = cmd.output().map_err(|e| e.to_string())?;
    if !out.status.success() {
        return Err(format!("c05run exited with {:?}: {}", out.status, String::from_utf8_lossy(&out.stderr).chars().take(300).collect::<String>()));
    }
    let mut v = Vec::new();
    for l in String::from_utf8_lossy(&out.stdout).lines() {
        if let Some(j) = l.strip_prefix("C05JSON ") {
            v.push(serde_json::from_str::<Value>(j).map_err(|e| e.to_string())?);
        }
    }
    if v.len() != idxs.len() + 1 {
        return Err(format!("c05run printed {} records for {} programs", v.len(), idxs.len()));
    }
    Ok(v)
}

fn diff_text(a: &str, b: &str) -> String {
    let la: Vec<&str> = a.lines().collect();
    let lb: Vec<&str> = b.lines().collect();
    let mut out = String::new();
    let mut shown = 0;
    for i in 0..la.len().max(lb.len()) {
        let x = la.get(i).unwrap_or(&"<none>");
        let y = lb.get(i).unwrap_or(&"<none>");
        if x != y {
            out.push_str(&format!("  line {}: {} | {}\n", i + 1, x.trim(), y.trim()));
            shown += 1;
            if shown >= 8 {
                break;
            }
        }
    }
    out
}

pub struct C05;

pub fn run(tier: Tier, i: usize) -> CaseOutcome {
    let ident = format!("C05|p{}", i);
    let coord = format!("coord:C05:p{}", i);
    let mut o = CaseOutcome::new(ident);
    let nseeds: u64 = if tier == Tier::Quick { 16 } else { 64 };
    let mut digests: Vec<(u64, String)> = Vec::new();
    let mut probes: BTreeSet<String> = BTreeSet::new();
    for seed in 0..nseeds {
        match spawn(seed, &[i], false) {
            Ok(v) => {
                probes.insert(v[0]["probe"].to_string());
                digests.push((seed, v[1]["digest"].as_str().unwrap_or("").to_string()));
                o.evals += 1;
            }
            Err(e) => {
                o.status = Status::Skipped(format!("machinery: {}", e));
                o.count(&format!("MACHINERY {}", e.chars().take(80).collect::<String>()), 1);
                return o;
            }
        }
    }
    o.count("seeds", nseeds);
    o.count("distinct hash-map iteration orders of the probe map", probes.len() as u64);
    if probes.len() < 2 {
        o.fail(format!("{}:seam", coord), "seed-seam-ineffective", "all seeds produced the same HashMap iteration order: the getrandom shim is not in effect".into());
        return o;
    }
    o.nontrivial = true;
    let d0 = digests[0].1.clone();
    o.outcomes.push(hash64(&d0));
    if let Some((s, _)) = digests.iter().find(|(_, d)| *d != d0) {
        let a = spawn(0, &[i], true).ok().and_then(|v| v[1]["text"].as_str().map(|s| s.to_string())).unwrap_or_default();
        let b = spawn(*s, &[i], true).ok().and_then(|v| v[1]["text"].as_str().map(|s| s.to_string())).unwrap_or_default();
        o.fail(coord.clone(), "depends-on-hash-seed", format!("program p{}: compilation record differs between hash seed 0 and hash seed {} (fresh processes)\n--- first differing lines (seed 0 | seed {})\n{}--- source\n{}", i, s, s, diff_text(&a, &b), CORPUS[i]));
        return o;
    }
    // same seed twice: the seam itself must be deterministic
    if let Ok(v) = spawn(3, &[i], false) {
        if v[1]["digest"].as_str() != Some(digests[3].1.as_str()) {
            o.fail(coord.clone(), "nondeterministic-with-fixed-seed", format!("program p{}: two fresh processes with the same hash seed give different records\n--- source\n{}", i, CORPUS[i]));
            return o;
        }
    }
    // histories: the record of p_i must not depend on what was compiled before in the same process
    let n = CORPUS.len();
    let firsts: Vec<usize> = (0..n).collect();
    for j in &firsts {
        match spawn(1, &[*j, i], false) {
            Ok(v) => {
                o.evals += 1;
                if v[2]["digest"].as_str() != Some(d0.as_str()) {
                    let a = spawn(1, &[i], true).ok().and_then(|v| v[1]["text"].as_str().map(|s| s.to_string())).unwrap_or_default();
                    let b = spawn(1, &[*j, i], true).ok().and_then(|v| v[2]["text"].as_str().map(|s| s.to_string())).unwrap_or_default();
                    o.fail(coord.clone(), "depends-on-history", format!("program p{} compiled after p{} in the same process differs from p{} compiled alone\n--- first differing lines (alone | after p{})\n{}--- source\n{}", i, j, i, j, diff_text(&a, &b), CORPUS[i]));
                    return o;
                }
            }
            Err(e) => {
                o.status = Status::Skipped(format!("machinery: {}", e));
                return o;
            }
        }
    }
    if tier == Tier::Thorough {
        for j in 0..n {
            for k in 0..n {
                if let Ok(v) = spawn(2, &[j, k, i, i], false) {
                    o.evals += 1;
                    if v[3]["digest"].as_str() != Some(d0.as_str()) || v[4]["digest"].as_str() != Some(d0.as_str()) {
                        o.fail(coord.clone(), "depends-on-history", format!("program p{} compiled after p{}, p{} (and then again) differs from p{} compiled alone\n--- source\n{}", i, j, k, i, CORPUS[i]));
                        return o;
                    }
                }
            }
        }
    }
    o.sample = json!({"program": i, "source": CORPUS[i], "seeds": nseeds, "histories": n});
    o
}

impl Check for C05 {
    fn prop(&self) -> &'static str {
        "C05"
    }
    fn level(&self) -> &'static str {
        "exploration"
    }
    fn rule(&self) -> String {
        "A fixed corpus of 49 programs built to have ties and multi-element maps (2-4 string literals in one expression, in nested calls, in local initialisers and tables; prototypes followed by definitions with and without parameters; many variables/functions; two and three interrupt handlers with callees; inline chains; macro chains; all memory classes; programs that end in each kind of diagnostic; label-counter and long-branch state) is compiled (i) in fresh processes under hash seeds 0..15 (quick) / 0..63 (thorough) supplied through an LD_PRELOAD shim on getrandom() - the check verifies on a probe HashMap that the seeds really change std's iteration order, (ii) twice with the same seed, (iii) in-process after every other corpus program (all ordered pairs; thorough: also triples and the same program twice). Oracle: byte-identical compilation record (ordered variables with definitions, ordered functions with emitted text and sizes, call tree, in-use set, preprocessed text, line map, or the diagnostic). Non-trivial = seeds changed the probe order; distinct = distinct programs.".into()
    }
    fn assumptions(&self) -> Vec<String> {
        vec!["std::collections::HashMap obtains its keys through getrandom(), which the shim answers deterministically from VCHECK_HASH_SEED".into(), "warnings printed on stdout are not part of the compared record".into()]
    }
    fn n_cases(&self, _tier: Tier) -> usize {
        CORPUS.len()
    }
    fn case_timeout_s(&self) -> u64 {
        300
    }
    fn case_ident(&self, _tier: Tier, idx: usize) -> String {
        format!("C05|p{}", idx)
    }
    fn run_case(&self, tier: Tier, idx: usize) -> CaseOutcome {
        run(tier, idx)
    }
    fn bounds(&self, tier: Tier) -> Value {
        json!({"programs": CORPUS.len(), "hash_seeds": if tier == Tier::Quick { 16 } else { 64 }, "histories": "all ordered pairs (thorough: + all ordered triples)"})
    }
}
