//! C02 — optimisation never changes observable behaviour (differential: -O1..3 versus -O0).

use crate::corpus;
use crate::engine::{case_key, CaseOutcome, Check, Status, Tier};
use crate::exec::{self, PrepFail};
use crate::corpus::CaseSpec;
use crate::sem::{self, SemCase};
use serde_json::{json, Value};
use std::sync::OnceLock;

pub struct C02 {
    quick: OnceLock<Vec<CaseSpec>>,
    thorough: OnceLock<Vec<CaseSpec>>,
}

impl C02 {
    pub fn new() -> C02 {
        C02 { quick: OnceLock::new(), thorough: OnceLock::new() }
    }
    fn cases(&self, tier: Tier) -> &Vec<CaseSpec> {
        let cell = match tier {
            Tier::Quick => &self.quick,
            Tier::Thorough => &self.thorough,
        };
        cell.get_or_init(|| corpus::exec_cases(tier))
    }
}

fn prep_tag(e: &PrepFail) -> String {
    match e {
        PrepFail::Rejected(er) => format!("rejected: {}", er.msg),
        PrepFail::Panic { loc, .. } => format!("panic@{}", loc),
        PrepFail::AsmErrors(er, _) => format!("asm-error: {}", er[0]),
        PrepFail::Layout(_) => "layout".into(),
        PrepFail::Bind(b) => format!("bind: {}", b),
    }
}

pub fn run_diff_case(case: &SemCase) -> CaseOutcome {
    let ident = case.ident();
    let mut o = CaseOutcome::new(ident.clone());
    let src = case.source();
    let base = match sem::prepare(case, "-O0") {
        Ok(p) => p,
        Err(e) => {
            // -O0 not executable: the other levels must behave the same way at compile time
            let t0 = prep_tag(&e);
            for opt in ["-O1", "-O2", "-O3"] {
                let t = match sem::prepare(case, opt) {
                    Ok(_) => "accepted".to_string(),
                    Err(e) => prep_tag(&e),
                };
                let same_kind = t.split(':').next() == t0.split(':').next();
                if !same_kind && (t0.starts_with("rejected") || t == "accepted") && !(t0.starts_with("asm-error") || t.starts_with("asm-error")) {
                    o.fail(case_key(&format!("{}|C02|{}", ident, opt)), "accept-mismatch", format!("{} tags={}\n--- source\n{}--- -O0: {} ; {}: {}", case.family, case.tags.join(","), src, t0, opt, t));
                }
            }
            if let Status::Fail(_) = o.status {
                return o;
            }
            o.status = match e {
                PrepFail::Rejected(_) => Status::Rejected,
                other => Status::Skipped(prep_tag(&other).chars().take(40).collect()),
            };
            return o;
        }
    };
    let rs0 = match sem::run_emu_all(case, &base, exec::DEFAULT_BUDGET) {
        Ok(r) => r,
        Err(e) => {
            o.status = Status::Skipped(format!("inputs: {}", e));
            return o;
        }
    };
    o.evals += rs0.results.len() as u64;
    let text0: Vec<String> = base.rec.funcs.iter().map(|f| crate::drv::strip_text(&f.text)).collect();
    let mut prev_text: Option<Vec<String>> = None;
    for opt in ["-O1", "-O2", "-O3"] {
        let p = match sem::prepare(case, opt) {
            Ok(p) => p,
            Err(e) => {
                o.fail(case_key(&format!("{}|C02|{}", ident, opt)), "accept-mismatch", format!("{} tags={}\n--- source\n{}--- accepted at -O0 but {} gives {}", case.family, case.tags.join(","), src, opt, prep_tag(&e)));
                continue;
            }
        };
        let removed: u32 = p.rec.funcs.iter().map(|f| f.removed).sum();
        if removed > 0 {
            o.nontrivial = true;
        }
        let text: Vec<String> = p.rec.funcs.iter().map(|f| crate::drv::strip_text(&f.text)).collect();
        if text == text0 {
            o.count(&format!("text-identical-to-O0{}", opt), 1);
            continue;
        }
        if let Some(pt) = &prev_text {
            if *pt == text {
                o.count(&format!("text-identical-to-previous-level{}", opt), 1);
                continue;
            }
        }
        prev_text = Some(text);
        let rs = match sem::run_emu_all(case, &p, exec::DEFAULT_BUDGET) {
            Ok(r) => r,
            Err(e) => {
                o.status = Status::Skipped(format!("inputs: {}", e));
                return o;
            }
        };
        o.evals += rs.results.len() as u64;
        for (k, (st, fs)) in rs.results.iter().enumerate() {
            let (st0, fs0) = &rs0.results[k];
            let same_halt = st == st0 || (matches!(st, crate::emu65::Stop::Fault(_)) && matches!(st0, crate::emu65::Stop::Fault(_)));
            let same = same_halt && (*st != crate::emu65::Stop::Returned || fs == fs0);
            if !same {
                let what = if !same_halt {
                    format!("-O0 stops with {:?}, {} stops with {:?}", st0, opt, st)
                } else if fs.hw != fs0.hw {
                    format!("hardware access trace differs: -O0 {:?} vs {} {:?}; {}", fs0.hw, opt, fs.hw, exec::describe_diff(&p, fs, fs0))
                } else {
                    exec::describe_diff(&p, fs, fs0)
                };
                o.fail(
                    case_key(&format!("{}|C02|{}", ident, opt)),
                    "optimised-differs",
                    format!("{} {} tags={}\n--- source\n{}--- input [{}]: ({}=emu, -O0=ref) {}\n--- asm -O0\n{}--- asm {}\n{}", case.family, opt, case.tags.join(","), src, sem::fmt_init(&rs.inits[k]), opt, what, sem::func_texts(&base), opt, sem::func_texts(&p)),
                );
                break;
            }
        }
        for (_, fs) in rs.results.iter().take(4) {
            o.outcomes.push(exec::hash_state(fs));
        }
    }
    o.sample = json!({"family": case.family, "source": src, "options": ["-O0", "-O1", "-O2", "-O3"], "inputs": case.inputs.iter().map(|i| json!({"name": i.name, "values": i.values})).collect::<Vec<_>>() });
    o
}

impl Check for C02 {
    fn prop(&self) -> &'static str {
        "C02"
    }
    fn level(&self) -> &'static str {
        "exploration"
    }
    fn rule(&self) -> String {
        "Every program of the executable corpus (all statement sequences of length <= 3 over the F4 alphabet incl. load/store/strobe/csleep/asm, plus families F1-F3, F7, F8, F9) is compiled at -O0, -O1, -O2, -O3; each level whose instruction text differs from -O0 is executed on the emulator from every enumerated input state and must halt exactly when -O0 does with identical RAM, X, Y and identical ordered trace of accesses to the logged hardware-register addresses. Non-trivial = the optimiser removed at least one instruction; distinct = distinct (family, options, source).".into()
    }
    fn assumptions(&self) -> Vec<String> {
        vec!["purely differential: no reference model".into(), "-O1..-O3 take the same path in the builder of this repository; all three are still compiled".into(), "independent emulator/assembler are correct (self-tests run first)".into()]
    }
    fn n_cases(&self, tier: Tier) -> usize {
        self.cases(tier).len()
    }
    fn case_ident(&self, tier: Tier, idx: usize) -> String {
        self.cases(tier)[idx].build().ident()
    }
    fn run_case(&self, tier: Tier, idx: usize) -> CaseOutcome {
        run_diff_case(&self.cases(tier)[idx].build())
    }
    fn bounds(&self, tier: Tier) -> Value {
        let fam = crate::corpus::family_counts(self.cases(tier));
        json!({"families": fam, "levels": ["-O0", "-O1", "-O2", "-O3"], "f4_alphabet": crate::gen2::SEQ_ALPHABET.to_vec()})
    }
}
