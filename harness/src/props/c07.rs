//! C07 — conditional compilation keeps exactly the active text.
//! Explicit-state exploration of the real conditional machine (hook H1) against the textbook
//! reference, breadth-first to a fixpoint with state deduplication.

use crate::drv::{self, Outcome};
use crate::engine::{case_key, CaseOutcome, Check, Tier};
use serde_json::{json, Value};
use std::collections::{HashMap, HashSet, VecDeque};
use std::sync::Mutex;

#[derive(Clone, Copy, Debug, PartialEq, Eq, Hash)]
pub enum Ev {
    If0,
    If1,
    IfD,
    IfZ,
    IfNotD,
    IfDeq1,
    IfdefD,
    IfdefU,
    IfndefD,
    IfndefU,
    IfdefM,
    IfndefM,
    Elif0,
    Elif1,
    ElifD,
    ElifNotZ,
    ElifZ,
    Else,
    Endif,
    Marker,
    DefineM,
    UndefM,
    Error,
    Include,
    IfNotNotD,
    IfZeqZ,
    Pragma,
    DefineF,
    UndefF,
    IfdefF,
    If2,
    IfT,
    IfTeq2,
    IfTeq3,
    ElifTeq3,
    ElifT,
    IfNotT,
}

pub const EVENTS: [Ev; 37] = [
    Ev::If0,
    Ev::If1,
    Ev::IfD,
    Ev::IfZ,
    Ev::IfNotD,
    Ev::IfDeq1,
    Ev::IfdefD,
    Ev::IfdefU,
    Ev::IfndefD,
    Ev::IfndefU,
    Ev::IfdefM,
    Ev::IfndefM,
    Ev::Elif0,
    Ev::Elif1,
    Ev::ElifD,
    Ev::ElifNotZ,
    Ev::ElifZ,
    Ev::Else,
    Ev::Endif,
    Ev::Marker,
    Ev::DefineM,
    Ev::UndefM,
    Ev::Error,
    Ev::Include,
    Ev::IfNotNotD,
    Ev::IfZeqZ,
    Ev::Pragma,
    Ev::DefineF,
    Ev::UndefF,
    Ev::IfdefF,
    Ev::If2,
    Ev::IfT,
    Ev::IfTeq2,
    Ev::IfTeq3,
    Ev::ElifTeq3,
    Ev::ElifT,
    Ev::IfNotT,
];

#[derive(Clone, Debug, PartialEq, Eq, Hash)]
pub struct Frame {
    parent_active: bool,
    taken: bool,
    selected: bool,
    else_seen: bool,
}

#[derive(Clone, Debug, PartialEq, Eq, Hash)]
pub struct RefState {
    frames: Vec<Frame>,
    m_defined: bool,
    f_defined: bool,
}

impl RefState {
    fn active(&self) -> bool {
        self.frames.iter().all(|f| f.selected && f.parent_active)
    }
}

fn text_of(ev: Ev, k: usize) -> String {
    match ev {
        Ev::If0 => "#if 0".into(),
        Ev::If1 => "#if 1".into(),
        Ev::IfD => "#if D".into(),
        Ev::IfZ => "#if Z".into(),
        Ev::IfNotD => "#if !D".into(),
        Ev::IfDeq1 => "#if D == 1".into(),
        Ev::IfdefD => "#ifdef D".into(),
        Ev::IfdefU => "#ifdef U".into(),
        Ev::IfndefD => "#ifndef D".into(),
        Ev::IfndefU => "#ifndef U".into(),
        Ev::IfdefM => "#ifdef M".into(),
        Ev::IfndefM => "#ifndef M".into(),
        Ev::Elif0 => "#elif 0".into(),
        Ev::Elif1 => "#elif 1".into(),
        Ev::ElifD => "#elif D".into(),
        Ev::ElifNotZ => "#elif !Z".into(),
        Ev::ElifZ => "#elif Z".into(),
        Ev::Else => "#else".into(),
        Ev::Endif => "#endif".into(),
        Ev::Marker => format!("char m{};", k),
        Ev::DefineM => "#define M 1".into(),
        Ev::UndefM => "#undef M".into(),
        Ev::Error => "#error stop here".into(),
        Ev::Include => format!("#include \"c07inc{}.h\"", k),
        Ev::IfNotNotD => "#if !!D".into(),
        Ev::IfZeqZ => "#if Z == Z".into(),
        Ev::Pragma => "#pragma once".into(),
        Ev::DefineF => "#define F(x) ((x) + 1)".into(),
        Ev::UndefF => "#undef F".into(),
        Ev::IfdefF => "#ifdef F".into(),
        Ev::If2 => "#if 2".into(),
        Ev::IfT => "#if T".into(),
        Ev::IfTeq2 => "#if T == 2".into(),
        Ev::IfTeq3 => "#if T == 3".into(),
        Ev::ElifTeq3 => "#elif T == 3".into(),
        Ev::ElifT => "#elif T".into(),
        Ev::IfNotT => "#if !T".into(),
    }
}

fn cond_of(ev: Ev, st: &RefState) -> Option<bool> {
    // truth of an opening / elif condition (D = 1, Z = 0, T = 2, U undefined)
    Some(match ev {
        Ev::If0 | Ev::Elif0 | Ev::IfZ | Ev::ElifZ | Ev::IfNotD | Ev::IfdefU | Ev::IfndefD | Ev::IfTeq3 | Ev::ElifTeq3 | Ev::IfNotT => false,
        Ev::If1 | Ev::Elif1 | Ev::IfD | Ev::ElifD | Ev::IfDeq1 | Ev::IfdefD | Ev::IfndefU | Ev::ElifNotZ | Ev::IfNotNotD | Ev::IfZeqZ | Ev::If2 | Ev::IfT | Ev::IfTeq2 | Ev::ElifT => true,
        Ev::IfdefM => st.m_defined,
        Ev::IfdefF => st.f_defined,
        Ev::IfndefM => !st.m_defined,
        _ => return None,
    })
}

fn is_open(ev: Ev) -> bool {
    matches!(ev, Ev::If0 | Ev::If1 | Ev::IfD | Ev::IfZ | Ev::IfNotD | Ev::IfDeq1 | Ev::IfdefD | Ev::IfdefU | Ev::IfndefD | Ev::IfndefU | Ev::IfdefM | Ev::IfndefM | Ev::IfNotNotD | Ev::IfZeqZ | Ev::IfdefF | Ev::If2 | Ev::IfT | Ev::IfTeq2 | Ev::IfTeq3 | Ev::IfNotT)
}
fn is_elif(ev: Ev) -> bool {
    matches!(ev, Ev::Elif0 | Ev::Elif1 | Ev::ElifD | Ev::ElifNotZ | Ev::ElifZ | Ev::ElifTeq3 | Ev::ElifT)
}

fn enabled(ev: Ev, st: &RefState, max_depth: usize) -> bool {
    if is_open(ev) {
        return st.frames.len() < max_depth;
    }
    if is_elif(ev) || ev == Ev::Else {
        return matches!(st.frames.last(), Some(f) if !f.else_seen);
    }
    match ev {
        Ev::Endif => !st.frames.is_empty(),
        // redefinition of an existing macro is an error the property does not speak about
        Ev::DefineM => !(st.active() && st.m_defined),
        Ev::DefineF => !(st.active() && st.f_defined),
        _ => true,
    }
}

fn step_ref(st: &RefState, ev: Ev) -> RefState {
    let mut n = st.clone();
    let active = st.active();
    if is_open(ev) {
        let c = cond_of(ev, st).unwrap();
        n.frames.push(Frame { parent_active: active, taken: active && c, selected: c, else_seen: false });
        // selected is only meaningful together with parent_active; keep raw condition for the
        // frame but normalise: a frame under an inactive parent never selects
        let f = n.frames.last_mut().unwrap();
        f.selected = f.parent_active && c;
        f.taken = f.selected;
    } else if is_elif(ev) {
        let c = cond_of(ev, st).unwrap();
        let f = n.frames.last_mut().unwrap();
        if f.parent_active && !f.taken && c {
            f.selected = true;
            f.taken = true;
        } else {
            f.selected = false;
        }
    } else {
        match ev {
            Ev::Else => {
                let f = n.frames.last_mut().unwrap();
                f.selected = f.parent_active && !f.taken;
                f.taken = true;
                f.else_seen = true;
            }
            Ev::Endif => {
                n.frames.pop();
            }
            Ev::DefineM => {
                if active {
                    n.m_defined = true;
                }
            }
            Ev::DefineF => {
                if active {
                    n.f_defined = true;
                }
            }
            Ev::UndefF => {
                if active {
                    n.f_defined = false;
                }
            }
            Ev::UndefM => {
                if active {
                    n.m_defined = false;
                }
            }
            _ => {}
        }
    }
    n
}

#[derive(Clone, Debug, PartialEq, Eq, Hash)]
struct Key {
    impl_state: u8,
    impl_stack: Vec<u8>,
    impl_m: bool,
    impl_f: bool,
    rf: RefState,
}

struct StepResult {
    key: Option<Key>, // None = terminal (error state)
    failure: Option<(String, String)>,
}

fn run_history(hist: &[Ev], incdir: &str) -> StepResult {
    // build source and the reference expectations
    let mut src = String::from("char z0;\n");
    let mut st = RefState { frames: vec![], m_defined: false, f_defined: false };
    let mut expect_markers: Vec<(String, bool)> = Vec::new();
    let mut expect_active: Vec<bool> = vec![true];
    let mut expect_error_line: Option<u32> = None;
    let mut expect_error_is_pragma = false;
    for (k, ev) in hist.iter().enumerate() {
        src.push_str(&text_of(*ev, k));
        src.push('\n');
        let active_before = st.active();
        match ev {
            Ev::Marker => expect_markers.push((format!("m{}", k), active_before)),
            Ev::Include => expect_markers.push((format!("inc{}", k), active_before)),
            Ev::Error | Ev::Pragma => {
                if active_before && expect_error_line.is_none() {
                    expect_error_line = Some(k as u32 + 2);
                    expect_error_is_pragma = *ev == Ev::Pragma;
                }
            }
            _ => {}
        }
        st = step_ref(&st, *ev);
        expect_active.push(st.active());
    }
    src.push_str("char zend;\n");
    let show = |s: &str| format!("--- source (options -DD=1 -DZ=0 -DT=2)\n{}", s);
    let (out, tr) = drv::compile_src_probe(src.as_bytes(), &["-O0", "-DD=1", "-DZ=0", "-DT=2", "-I", incdir], &["M", "F"]);
    if let Some(el) = expect_error_line {
        // the history ends in an active #error: Err with that line, nothing else
        return match out {
            Outcome::Err(e) if !expect_error_is_pragma && e.kind == "Compiler" && e.line == el && e.msg == "stop here" && e.filename == "in.c" => StepResult { key: None, failure: None },
            // an unknown directive in active text is refused at its line (in a skipped region it has no effect)
            Outcome::Err(e) if expect_error_is_pragma && e.kind == "Syntax" && e.line == el && e.filename == "in.c" => StepResult { key: None, failure: None },
            other => StepResult { key: None, failure: Some(("error-not-raised".into(), format!("expected the active #error on line {} to be reported, got {:?}\n{}", el, short(&other), show(&src)))) },
        };
    }
    let rec = match out {
        Outcome::Ok(r) => r,
        other => {
            return StepResult { key: None, failure: Some(("unexpected-outcome".into(), format!("well-formed conditional text was not compiled: {:?}\n{}", short(&other), show(&src)))) };
        }
    };
    // implementation trace: one entry per logical line of in.c (included files have their own entries)
    let main_steps: Vec<&(String, u32, u8, Vec<u8>)> = tr.cpp.iter().filter(|t| t.0 == "in.c").collect();
    if main_steps.len() != hist.len() + 2 {
        return StepResult { key: None, failure: Some(("trace-shape".into(), format!("hook trace has {} entries for {} lines\n{}", main_steps.len(), hist.len() + 2, show(&src)))) };
    }
    for (i, t) in main_steps.iter().enumerate().take(hist.len() + 1) {
        let impl_active = t.2 == 2;
        if impl_active != expect_active[i] {
            return StepResult {
                key: None,
                failure: Some(("activity-differs".into(), format!("after line {} the implementation is {} (state {}, stack {:?}) but the reference says {}\n{}", i + 1, if impl_active { "active" } else { "inactive" }, t.2, t.3, if expect_active[i] { "active" } else { "inactive" }, show(&src)))),
            };
        }
    }
    for (name, want) in &expect_markers {
        let have = rec.vars.iter().any(|v| &v.name == name);
        if have != *want {
            return StepResult { key: None, failure: Some(("marker-differs".into(), format!("declaration {} {} the compiler but its region is {}\n{}", name, if have { "reached" } else { "did not reach" }, if *want { "active" } else { "inactive" }, show(&src)))) };
        }
    }
    if !rec.vars.iter().any(|v| v.name == "z0") {
        return StepResult { key: None, failure: Some(("marker-differs".into(), format!("leading declaration lost\n{}", show(&src)))) };
    }
    let have_end = rec.vars.iter().any(|v| v.name == "zend");
    if have_end != st.active() {
        return StepResult { key: None, failure: Some(("marker-differs".into(), format!("trailing declaration zend {} but the final region is {}\n{}", if have_end { "reached the compiler" } else { "was dropped" }, if st.active() { "active" } else { "inactive" }, show(&src)))) };
    }
    let impl_m = rec.macros.contains_key("M");
    if impl_m != st.m_defined {
        return StepResult { key: None, failure: Some(("macro-differs".into(), format!("macro M is {} afterwards but the reference says {}\n{}", if impl_m { "defined" } else { "undefined" }, if st.m_defined { "defined" } else { "undefined" }, show(&src)))) };
    }
    let impl_f = rec.macros.contains_key("F");
    if impl_f != st.f_defined {
        return StepResult { key: None, failure: Some(("macro-differs".into(), format!("function-like macro F is {} afterwards but the reference says {}\n{}", if impl_f { "defined" } else { "undefined" }, if st.f_defined { "defined" } else { "undefined" }, show(&src)))) };
    }
    let last = main_steps[hist.len()];
    StepResult { key: Some(Key { impl_state: last.2, impl_stack: last.3.clone(), impl_m, impl_f, rf: st }), failure: None }
}

fn short(o: &Outcome) -> String {
    match o {
        Outcome::Ok(_) => "Ok".into(),
        Outcome::Err(e) => format!("Err({} line {} of {}: {})", e.kind, e.line, e.filename, e.msg),
        Outcome::Panic { loc, msg } => format!("Panic at {}: {}", loc, msg),
    }
}

pub struct C07;

pub fn explore(max_depth: usize, incdir: &str, threads: usize) -> CaseOutcome {
    let ident = format!("C07.bfs|depth{}", max_depth);
    let mut o = CaseOutcome::new(ident.clone());
    let mut seen: HashSet<Key> = HashSet::new();
    let mut frontier: VecDeque<(Vec<Ev>, RefState)> = VecDeque::new();
    // initial state
    let init = run_history(&[], incdir);
    match (init.key, init.failure) {
        (Some(k), None) => {
            seen.insert(k.clone());
            frontier.push_back((vec![], k.rf));
        }
        (_, f) => {
            let (kind, detail) = f.unwrap_or(("init".into(), "initial state failed".into()));
            o.fail(case_key(&format!("{}|{}", ident, kind)), &kind, detail);
            return o;
        }
    }
    let mut transitions = 0u64;
    let mut max_len = 0usize;
    let mut pairs: HashSet<(u8, usize, Ev)> = HashSet::new();
    let mut samples: Vec<String> = Vec::new();
    let mut fail_kinds: HashMap<String, u32> = HashMap::new();
    while !frontier.is_empty() {
        // expand the whole level in parallel, merge in order (deterministic search)
        let level: Vec<(Vec<Ev>, RefState)> = frontier.drain(..).collect();
        let mut work: Vec<(usize, Vec<Ev>, Ev)> = Vec::new();
        for (li, (h, rs)) in level.iter().enumerate() {
            for ev in EVENTS.iter() {
                if enabled(*ev, rs, max_depth) {
                    let mut h2 = h.clone();
                    h2.push(*ev);
                    work.push((li, h2, *ev));
                }
            }
        }
        let results: Mutex<Vec<Option<StepResult>>> = Mutex::new((0..work.len()).map(|_| None).collect());
        let next = std::sync::atomic::AtomicUsize::new(0);
        std::thread::scope(|s| {
            for _ in 0..threads {
                s.spawn(|| {
                    crate::drv::install_panic_hook();
                    loop {
                        let i = next.fetch_add(1, std::sync::atomic::Ordering::SeqCst);
                        if i >= work.len() {
                            break;
                        }
                        let r = run_history(&work[i].1, incdir);
                        results.lock().unwrap()[i] = Some(r);
                    }
                });
            }
        });
        let results = results.into_inner().unwrap();
        for (i, r) in results.into_iter().enumerate() {
            let r = r.unwrap();
            let (_li, h2, ev) = &work[i];
            transitions += 1;
            max_len = max_len.max(h2.len());
            if let Some((kind, detail)) = r.failure {
                let n = fail_kinds.entry(kind.clone()).or_insert(0);
                *n += 1;
                if *n <= 5 {
                    let evs: Vec<String> = h2.iter().map(|e| format!("{:?}", e)).collect();
                    o.fail(format!("coord:C07:{}:{}", kind, evs.join(",")), &kind, format!("history {:?}\n{}", evs, detail));
                }
                continue;
            }
            if let Some(k) = r.key {
                pairs.insert((k.impl_state, k.impl_stack.len(), *ev));
                if !seen.contains(&k) {
                    seen.insert(k.clone());
                    if samples.len() < 6 && h2.len() >= 3 {
                        samples.push(h2.iter().enumerate().map(|(j, e)| text_of(*e, j)).collect::<Vec<_>>().join(" / "));
                    }
                    frontier.push_back((h2.clone(), k.rf));
                }
            }
        }
        if !fail_kinds.is_empty() {
            // stop at the first level with failures: shortest counterexamples
            break;
        }
    }
    o.states = seen.len() as u64;
    o.transitions = transitions;
    o.evals = transitions + 1;
    o.nontrivial = seen.len() > 10;
    for k in &seen {
        o.outcomes.push(crate::engine::hash64(&format!("{:?}", k)));
    }
    o.count("distinct (state, depth, directive) pairs exercised", pairs.len() as u64);
    o.count("max history length", max_len as u64);
    o.sample = json!({"max_nesting": max_depth, "histories": samples, "events": EVENTS.iter().enumerate().map(|(k, e)| text_of(*e, k)).collect::<Vec<_>>()});
    o
}

impl Check for C07 {
    fn prop(&self) -> &'static str {
        "C07"
    }
    fn level(&self) -> &'static str {
        "model_checking"
    }
    fn is_state_graph(&self) -> bool {
        true
    }
    fn rule(&self) -> String {
        "Explicit-state breadth-first search over directive histories. A state is the pair (implementation state read through hook H1: the (state, stack) of cpp::process after the last line plus whether macro M is defined in its Context; reference state: stack of frames {parent active, branch taken, branch selected, else seen} plus M defined). Events: 14 opening forms (#if 0/1/D/Z/!D/!!D/D == 1/Z == Z, #ifdef/#ifndef D/U/M), 5 #elif forms, #else, #endif, a marker declaration, #define M, #undef M, #define / #undef / #ifdef of a function-like macro F, #error, an unknown directive (#pragma), #include of a header that declares a variable; an event is enabled where the arrangement stays well formed and nesting <= bound. Every transition compiles 'history + event' with the real compile(); invariants checked on every transition: implementation active iff reference active after every line; each marker/included declaration reaches CompilerState.variables iff its region is active; M defined afterwards iff its #define was active and not undone; an active #error yields Err(Compiler) with its line and an active unknown directive Err(Syntax) with its line; inactive ones have no effect. Search runs to a fixpoint (no new state pair), so histories of unbounded length within the nesting bound are covered.".into()
    }
    fn assumptions(&self) -> Vec<String> {
        vec![
            "dedup soundness: process() carries no state across lines other than (state, stack), the macro tables, in_multiline_comments (held false by the alphabet) and the output so far".into(),
            "redefinition of an already defined macro and #if on undefined identifiers are outside the alphabet (the property does not speak about them)".into(),
        ]
    }
    fn n_cases(&self, _tier: Tier) -> usize {
        1
    }
    fn case_timeout_s(&self) -> u64 {
        1800
    }
    fn run_case(&self, tier: Tier, _idx: usize) -> CaseOutcome {
        let depth = match tier {
            Tier::Quick => 4,
            Tier::Thorough => 6,
        };
        let dir = format!("{}/c07inc_{}", crate::engine::run_dir(), std::process::id());
        std::fs::create_dir_all(&dir).expect("scratch include dir");
        for k in 0..64 {
            std::fs::write(format!("{}/c07inc{}.h", dir, k), format!("char inc{};\n", k)).expect("write include");
        }
        let threads = std::thread::available_parallelism().map(|n| n.get()).unwrap_or(8);
        let o = explore(depth, &dir, threads);
        let _ = std::fs::remove_dir_all(&dir);
        o
    }
    fn bounds(&self, tier: Tier) -> Value {
        json!({"max_nesting_depth": if tier == Tier::Quick { 4 } else { 6 }, "events": EVENTS.len(), "history_length": "unbounded (fixpoint)"})
    }
}
