//! C17 — split-port cartridge RAM is read and written through the right ports.

use crate::engine::{case_key, CaseOutcome, Check, Status, Tier};
use crate::emu65::Stop;
use crate::exec::{self, PrepFail};
use crate::gen2;
use crate::sem::{self, SemCase};
use serde_json::{json, Value};
use std::sync::OnceLock;

pub struct C17 {
    q: OnceLock<Vec<SemCase>>,
    t: OnceLock<Vec<SemCase>>,
}

fn cases(tier: Tier) -> Vec<SemCase> {
    gen2::f9(tier).into_iter().filter(|c| !c.family.ends_with(".zp")).collect()
}

impl C17 {
    pub fn new() -> C17 {
        C17 { q: OnceLock::new(), t: OnceLock::new() }
    }
    fn cs(&self, tier: Tier) -> &Vec<SemCase> {
        match tier {
            Tier::Quick => self.q.get_or_init(|| cases(tier)),
            Tier::Thorough => self.t.get_or_init(|| cases(tier)),
        }
    }
}

pub fn run(case: &SemCase) -> CaseOutcome {
    let ident = case.ident();
    let mut o = CaseOutcome::new(ident.clone());
    let src = case.source();
    let mut any = false;
    let mut rejected = 0;
    for opt in ["-O1", "-O0"] {
        let prep = match sem::prepare(case, opt) {
            Ok(p) => p,
            Err(PrepFail::Rejected(e)) => {
                rejected += 1;
                o.count(&format!("rejected: {}", e.msg.chars().take(60).collect::<String>()), 1);
                continue;
            }
            Err(PrepFail::Panic { loc, .. }) => {
                o.count(&format!("compiler-panic@{}", loc), 1);
                continue;
            }
            Err(PrepFail::AsmErrors(errs, _)) => {
                o.fail(case_key(&format!("{}|asm|{}", ident, opt)), "does-not-assemble", format!("{} {} tags={}\n--- source\n{}--- assembler: {}", case.family, opt, case.tags.join(","), src, errs.join(" ; ")));
                continue;
            }
            Err(PrepFail::Layout(_)) => {
                o.count("layout-overflow", 1);
                continue;
            }
            Err(PrepFail::Bind(e)) => {
                o.status = Status::Skipped(e);
                return o;
            }
        };
        if prep.img.split_ranges.is_empty() {
            o.status = Status::Skipped("no split-port variable in the layout".into());
            return o;
        }
        let rs = match sem::run_emu_all(case, &prep, exec::DEFAULT_BUDGET) {
            Ok(r) => r,
            Err(e) => {
                o.status = Status::Skipped(e);
                return o;
            }
        };
        any = true;
        o.evals += rs.results.len() as u64;
        o.nontrivial = true;
        // port discipline
        let mut faulted = false;
        for (k, (st, _)) in rs.results.iter().enumerate() {
            if let Stop::Fault(f) = st {
                let kind = if f.contains("read-modify-write") {
                    "read-modify-write-on-port"
                } else if f.contains("read of write port") {
                    "read-of-write-port"
                } else if f.contains("write to read port") {
                    "write-to-read-port"
                } else {
                    "fault"
                };
                o.fail(case_key(&format!("{}|{}", ident, opt)), kind, format!("{} {} tags={}\n--- source\n{}--- input [{}]: {}\n--- asm\n{}", case.family, opt, case.tags.join(","), src, sem::fmt_init(&rs.inits[k]), f, sem::func_texts(&prep)));
                faulted = true;
                break;
            }
        }
        if faulted {
            continue;
        }
        // and the program still computes what it computes with ordinary (zero-page) variables
        let zsrc = src.replace("superchip ", "").replace("bank1 ", "");
        let small: Vec<(&str, &[i32])> = vec![];
        let mut zcase = gen2::case_from_text(&case.family, &zsrc, &small, vec![], 1_000_000);
        zcase.extra_opts = case.extra_opts.clone();
        zcase.inputs = case.inputs.clone();
        let zprep = match sem::prepare(&zcase, opt) {
            Ok(p) => p,
            Err(_) => {
                o.count("ordinary placement not executable", 1);
                continue;
            }
        };
        let zrs = match sem::run_emu_all(&zcase, &zprep, exec::DEFAULT_BUDGET) {
            Ok(r) => r,
            Err(e) => {
                o.status = Status::Skipped(e);
                return o;
            }
        };
        let names: Vec<String> = prep.rec.vars.iter().filter(|v| v.global && prep.img.var_addr.contains_key(&v.name) && v.def == crate::drv::Def::None && !(v.vtype == crate::drv::VT::CharPtr && !v.is_const)).map(|v| v.name.clone()).collect();
        'inputs: for (k, (st, fs)) in rs.results.iter().enumerate() {
            let (zst, zfs) = &zrs.results[k];
            if k < 4 {
                o.outcomes.push(exec::hash_state(zfs));
            }
            let mut diff = String::new();
            if st != zst {
                diff = format!("stop {:?} vs {:?}", st, zst);
            } else if fs.x != zfs.x || fs.y != zfs.y {
                diff = format!("X/Y: {:#x}/{:#x} vs {:#x}/{:#x}", fs.x, fs.y, zfs.x, zfs.y);
            } else {
                for n in &names {
                    let a = exec::var_bytes_of(&prep, fs, n);
                    let b = exec::var_bytes_of(&zprep, zfs, n);
                    if a != b {
                        diff = format!("{}: {:x?} (split-port placement) vs {:x?} (ordinary placement)", n, a, b);
                        break;
                    }
                }
            }
            if !diff.is_empty() {
                o.fail(
                    case_key(&format!("{}|{}", ident, opt)),
                    "differs-from-ordinary-placement",
                    format!("{} {} tags={}\n--- source\n{}--- input [{}]: {}\n--- asm (split-port placement)\n{}--- asm (ordinary placement)\n{}", case.family, opt, case.tags.join(","), src, sem::fmt_init(&rs.inits[k]), diff, sem::func_texts(&prep), sem::func_texts(&zprep)),
                );
                break 'inputs;
            }
        }
    }
    if !any && rejected > 0 {
        if let Status::Pass = o.status {
            o.status = Status::Rejected;
        }
    }
    o.sample = json!({"family": case.family, "options": case.extra_opts, "source": src});
    o
}

impl Check for C17 {
    fn prop(&self) -> &'static str {
        "C17"
    }
    fn level(&self) -> &'static str {
        "exploration"
    }
    fn rule(&self) -> String {
        "Family F9.mem restricted to split-port placements: 68 statements (assignment, compound assignment, ++/--, 8- and 16-bit shifts, indexing by X/Y/constant of char and short arrays, comparison, parameter passing, load/store) x 15 subsets of the variables {a, b, r, s, t, arr, sarr, p} declared superchip, or bank-resident RAM under -D__3E__ / -D__3E_PLUS__ (thorough: also pairs of statements), at -O0 and -O1, executed from every enumerated input on the emulator with a split-port RAM model: a read of a write-port address, a write to a read-port address or a read-modify-write instruction (INC DEC ASL LSR ROL ROR) on either port is a fault; then every global variable, X and Y are compared with the same program compiled with ordinary zero-page variables (differential: the split-port placement must not change what the program computes). Non-trivial = executed with at least one split-port variable; distinct = distinct (placement, source).".into()
    }
    fn assumptions(&self) -> Vec<String> {
        vec![
            "port model: superchip write port $1000-$107F / read port +$80; 3E read $1000 / write +$400; 3E+ read base / write +$200 (as emitted by the generator's offsets)".into(),
            "the harness is built with the atari2600 feature (INC/DEC avoidance exists only there)".into(),
        ]
    }
    fn n_cases(&self, tier: Tier) -> usize {
        self.cs(tier).len()
    }
    fn case_ident(&self, tier: Tier, idx: usize) -> String {
        self.cs(tier)[idx].ident()
    }
    fn run_case(&self, tier: Tier, idx: usize) -> CaseOutcome {
        run(&self.cs(tier)[idx])
    }
    fn bounds(&self, tier: Tier) -> Value {
        let mut fam = std::collections::BTreeMap::new();
        for c in self.cs(tier) {
            *fam.entry(c.family.clone()).or_insert(0u64) += 1;
        }
        json!({"families": fam, "statements": gen2::F9_STMTS.len() + gen2::F9_STMTS2.len(), "levels": ["-O0", "-O1"]})
    }
}
