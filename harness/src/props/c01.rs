//! C01 — emitted 6502 code computes what the C source says.

use crate::engine::{case_key, CaseOutcome, Check, Status, Tier};
use crate::exec::{self, PrepFail};
use crate::corpus::CaseSpec;
use crate::sem::{self, SemCase};
use serde_json::{json, Value};
use std::sync::OnceLock;

pub struct C01 {
    quick: OnceLock<Vec<CaseSpec>>,
    thorough: OnceLock<Vec<CaseSpec>>,
}

impl C01 {
    pub fn new() -> C01 {
        C01 { quick: OnceLock::new(), thorough: OnceLock::new() }
    }
    fn cases(&self, tier: Tier) -> &Vec<CaseSpec> {
        let cell = match tier {
            Tier::Quick => &self.quick,
            Tier::Thorough => &self.thorough,
        };
        cell.get_or_init(|| build_cases(tier))
    }
}

pub fn build_cases(tier: Tier) -> Vec<CaseSpec> {
    crate::corpus::ref_cases_c01(tier)
}

pub const OPTS: [&str; 2] = ["-O1", "-O0"];

/// Shared with other properties: run one semantic case against the reference.
pub fn run_sem_case(case: &SemCase, opts: &[&str]) -> CaseOutcome {
    let ident = case.ident();
    let mut o = CaseOutcome::new(ident.clone());
    let src = case.source();
    let mut all_rejected = true;
    let mut any_run = false;
    for opt in opts {
        let prep = match sem::prepare(case, opt) {
            Ok(p) => p,
            Err(PrepFail::Rejected(e)) => {
                o.count(&format!("rejected{}", opt), 1);
                o.count(&format!("reject:{}", e.msg.chars().take(60).collect::<String>()), 1);
                continue;
            }
            Err(PrepFail::Panic { loc, .. }) => {
                all_rejected = false;
                o.count(&format!("compiler-panic@{}", loc), 1);
                continue;
            }
            Err(PrepFail::AsmErrors(errs, _)) => {
                all_rejected = false;
                o.count("asm-errors(C13)", 1);
                o.count(&format!("asmerr:{}", errs[0].chars().take(80).collect::<String>()), 1);
                continue;
            }
            Err(PrepFail::Layout(_)) => {
                all_rejected = false;
                o.count("layout-overflow", 1);
                continue;
            }
            Err(PrepFail::Bind(e)) => {
                o.status = Status::Skipped(format!("bind: {}", e));
                return o;
            }
        };
        all_rejected = false;
        let rs = match sem::run_emu_all(case, &prep, exec::DEFAULT_BUDGET) {
            Ok(r) => r,
            Err(e) => {
                o.status = Status::Skipped(format!("inputs: {}", e));
                return o;
            }
        };
        let v = match sem::compare_with_ref(case, &prep, &rs) {
            Ok(v) => v,
            Err(e) => {
                o.status = Status::Skipped(format!("bind: {}", e));
                return o;
            }
        };
        if let Some(a) = v.aborted {
            o.status = Status::Skipped(format!("cref abort: {:?}", a).chars().take(40).collect());
            return o;
        }
        any_run = true;
        o.evals += rs.results.len() as u64;
        if v.ref_states.len() >= 2 {
            o.nontrivial = true;
        }
        for h in &v.ref_states {
            o.outcomes.push(*h);
        }
        if v.dialects_differ {
            o.count("dialects-differ", 1);
            if let Some(n) = v.agreeing.first() {
                o.count(&format!("followed-{}", n), 1);
            }
        }
        if !v.agrees() {
            o.fail(
                case_key(&format!("{}|{}", ident, opt)),
                "semantic",
                format!("{} {} tags={}\n--- source\n{}--- {}\n--- asm\n{}", case.family, opt, case.tags.join(","), src, v.first_diff.unwrap_or_default(), sem::func_texts(&prep)),
            );
        }
    }
    if all_rejected {
        o.status = Status::Rejected;
    } else if !any_run {
        if let Status::Pass = o.status {
            o.status = Status::Skipped("not executed".into());
        }
    }
    o.sample = json!({"family": case.family, "source": src, "options": opts, "inputs": case.inputs.iter().map(|i| json!({"name": i.name, "values": i.values})).collect::<Vec<_>>() });
    o
}

impl Check for C01 {
    fn prop(&self) -> &'static str {
        "C01"
    }
    fn level(&self) -> &'static str {
        "exploration"
    }
    fn rule(&self) -> String {
        "Programs are enumerated exhaustively from typed grammars (families F1.. and the programs of the repository's own tests, F0.pinned; alphabets, depth and per-family counts in 'bounds'), smallest first; each is compiled by the real compile() at -O1 and -O0, assembled by an independent encoder and executed on an independent 6502 emulator from every input state of the enumerated domain; final memory, X and Y are compared with a reference interpreter of C (two admissible dialects for 8-bit intermediates). A case is non-trivial when the reference final state differs between at least two of its inputs; distinct = distinct (family, options, source text).".into()
    }
    fn assumptions(&self) -> Vec<String> {
        vec![
            "C semantics as stated in DESIGN.md §1.4 (16-bit int, two's complement wrap, arithmetic >> on signed)".into(),
            "a program passes if the emitted code agrees with the ISO dialect for all inputs or with the W8 dialect for all inputs".into(),
            "independent emulator/assembler are correct (self-tests run in setup)".into(),
            "compiler rejections (Err) are never violations of C01".into(),
        ]
    }
    fn n_cases(&self, tier: Tier) -> usize {
        self.cases(tier).len()
    }
    fn case_ident(&self, tier: Tier, idx: usize) -> String {
        self.cases(tier)[idx].build().ident()
    }
    fn run_case(&self, tier: Tier, idx: usize) -> CaseOutcome {
        run_sem_case(&self.cases(tier)[idx].build(), &OPTS)
    }
    fn bounds(&self, tier: Tier) -> Value {
        let fam = crate::corpus::family_counts(self.cases(tier));
        json!({"families": fam, "options": OPTS, "input_domain_8bit": exec::V8, "input_domain_16bit": exec::V16})
    }
}
