//! C14 — inlining is transparent; C12 — call graph and in-use set are complete.
//! Both run over the function family F3 extended with every subset of functions marked inline.

use crate::ast::*;
use crate::cparse;
use crate::engine::{case_key, hash64, CaseOutcome, Check, Status, Tier};
use crate::exec::{self, PrepFail};
use crate::gen2::{case_from_text, D0_TEXT};
use crate::sem::{self, SemCase};
use serde_json::{json, Value};
use std::collections::{BTreeMap, BTreeSet};
use std::sync::OnceLock;

pub struct FnDef {
    pub name: &'static str,
    pub text: &'static str,
}

pub const LIB: [FnDef; 29] = [
    FnDef { name: "f0", text: "void f0() { c = c + 1; }" },
    FnDef { name: "f1", text: "char f1() { return a + 1; }" },
    FnDef { name: "f2", text: "char f2(char v) { return v + b; }" },
    FnDef { name: "f3", text: "char f3(char v, char w) { if (v == w) return 7; return w; }" },
    FnDef { name: "f4", text: "void f4(char v) { arr[X] = v; }" },
    FnDef { name: "f5", text: "char f5(char *q) { return q[Y]; }" },
    FnDef { name: "f6", text: "char f6(char v) { char i; i = 0; while (v) { v--; i += 2; } return i; }" },
    FnDef { name: "f7", text: "char f7(char v) { return f2(v) + 1; }" },
    FnDef { name: "f8", text: "void f8(char v, short w) { s = w + v; }" },
    FnDef { name: "f9", text: "char f9(char v) { if (v == 3) return 0; if (v == 5) { c = 9; return 1; } return v; }" },
    FnDef { name: "g1", text: "void g1() { f0(); if (a) f0(); }" },
    FnDef { name: "g2", text: "char g2(char v) { b = f9(v); return b + 1; }" },
    FnDef { name: "g3", text: "void g3() { for (X = 0; X != 2; X++) { if (arr[X]) continue; c++; } }" },
    FnDef { name: "g4", text: "char g4() { switch (a) { case 1: return 10; case 2: c = 2; break; default: c = 3; } return c; }" },
    FnDef { name: "g5", text: "char g5() { if (X) return 2; return 1; }" },
    FnDef { name: "g6", text: "void g6() { c = 0; }" },
    FnDef { name: "h1", text: "void h1() { if (a <= 5) X = 1; else X = 2; }" },
    FnDef { name: "h2", text: "char h2() { if (a > 3) return 1; return 0; }" },
    FnDef { name: "h3", text: "void h3() { a = 3; }" },
    FnDef { name: "h4", text: "void h4(char v) { if (v >= b) c = 1; else c = 2; }" },
    FnDef { name: "h5", text: "char h5() { if (Y) return 1; return 0; }" },
    FnDef { name: "h6", text: "void h6() { a = h5(); b = 5; }" },
    FnDef { name: "h7", text: "void h7() { if (h5()) b++; }" },
    FnDef { name: "h8", text: "void h8() { asm(\"LDA #32\\n\\tSTA cctmp\", 4); }" },
    FnDef { name: "h9", text: "void h9() { X++; f0(); }" },
    FnDef { name: "h10", text: "char h10() { return b++; }" },
    FnDef { name: "h11", text: "char h11(char *q) { return *q; }" },
    // signed conditions (branches on N) inside a body that is copied
    FnDef { name: "h12", text: "void h12() { signed char k; k = a; if (k >= 0) c = 1; else c = 2; }" },
    FnDef { name: "h13", text: "char h13(signed char k) { if (k < 0) return 1; if (k < 3) return 2; return 3; }" },
];

/// functions a function calls (library order = definition order: callees first)
fn deps(name: &str) -> &'static [&'static str] {
    match name {
        "f7" => &["f2"],
        "g1" => &["f0"],
        "g2" => &["f9"],
        "h6" => &["h5"],
        "h7" => &["h5"],
        "h9" => &["f0"],
        _ => &[],
    }
}

pub const BODIES: [(&str, &[&str]); 108] = [
    ("f0();", &["f0"]),
    ("f0(); f0();", &["f0"]),
    ("f0(); f0(); f0();", &["f0"]),
    ("r = f1();", &["f1"]),
    ("r = f1() + a;", &["f1"]),
    ("r = a + f1();", &["f1"]),
    ("r = f2(a);", &["f2"]),
    ("r = f2(3);", &["f2"]),
    ("r = f2(a + 1);", &["f2"]),
    ("r = f2(a) + c;", &["f2"]),
    ("r = c + f2(a);", &["f2"]),
    ("r = f2(f1());", &["f1", "f2"]),
    ("r = f2(f2(a));", &["f2"]),
    ("r = f3(a, b);", &["f3"]),
    ("r = f3(b, a);", &["f3"]),
    ("r = f3(a, 3);", &["f3"]),
    ("r = f3(f1(), c);", &["f1", "f3"]),
    ("r = f3(a, b) + 1;", &["f3"]),
    ("f4(a);", &["f4"]),
    ("f4(a); f4(b);", &["f4"]),
    ("r = f5(arr);", &["f5"]),
    ("r = f5(tab);", &["f5"]),
    ("p = arr; r = f5(p);", &["f5"]),
    ("r = f6(a);", &["f6"]),
    ("r = f6(a) + f6(b);", &["f6"]),
    ("r = f7(a);", &["f2", "f7"]),
    ("r = f7(a); c = f2(b);", &["f2", "f7"]),
    ("if (f1()) r = 1; else r = 2;", &["f1"]),
    ("if (f2(a) == 3) r = 1; else r = 2;", &["f2"]),
    ("if (f9(a)) r = 1; else r = 2;", &["f9"]),
    ("r = 0; for (X = 0; X < 3; X++) r += f2(X);", &["f2"]),
    ("r = 0; while (f1() != 4) { a++; r++; }", &["f1"]),
    ("r = 0; do { r += f9(a); a++; } while (a < 6);", &["f9"]),
    ("arr[X] = f2(a);", &["f2"]),
    ("f8(a, s);", &["f8"]),
    ("X = f1(); Y = f2(X);", &["f1", "f2"]),
    ("r = f9(a);", &["f9"]),
    ("r = f9(a) + f9(b);", &["f9"]),
    ("r = f9(a); c = c + f9(b);", &["f9"]),
    ("g1();", &["f0", "g1"]),
    ("g1(); f0();", &["f0", "g1"]),
    ("r = g2(a);", &["f9", "g2"]),
    ("r = g2(a) + 1; c = g2(b);", &["f9", "g2"]),
    ("g3();", &["g3"]),
    ("g3(); g3();", &["g3"]),
    ("r = g4();", &["g4"]),
    ("r = (a + b) + f1();", &["f1"]),
    ("r = (a + 1) + f2(c);", &["f2"]),
    ("r = a + b + f1();", &["f1"]),
    ("r = (a & b) | f9(c);", &["f9"]),
    ("r = g5(); c = 1;", &["g5"]),
    ("r = g5(); c = 2;", &["g5"]),
    ("X = g5(); Y = 1;", &["g5"]),
    ("b = a; f0(); if (b) r = 1; else r = 2;", &["f0"]),
    ("b = a; g6(); if (b) r = 1; else r = 2;", &["g6"]),
    ("X = a; g6(); if (X) r = 1; else r = 2;", &["g6"]),
    ("b = a; g6(); while (b) { b--; r++; }", &["g6"]),
    ("r = g5(); if (r == 1) c = 5;", &["g5"]),
    ("a = 1; g6(); a = 1; r = a;", &["g6"]),
    ("if (g5() == 2) r = f1(); else r = f2(a);", &["f1", "f2", "g5"]),
    ("a = 7; h1();", &["h1"]),
    ("a = 5; h1();", &["h1"]),
    ("a = 3; h1(); c = X;", &["h1"]),
    ("a = 3; r = h2();", &["h2"]),
    ("a = 4; r = h2(); c = 1;", &["h2"]),
    ("X = b; h3(); if (X) b = 1;", &["h3"]),
    ("c--; h3(); if (c) r = 1; else r = 2;", &["h3"]),
    ("Y = b; h3(); if (Y == 0) r = 1;", &["h3"]),
    ("c = a - b; h3(); if (c) r = 1;", &["h3"]),
    ("b = 2; h4(b);", &["h4"]),
    ("a = 2; b = 2; h4(a);", &["h4"]),
    ("b = 9; h4(3);", &["h4"]),
    ("a = h5(); b = 0;", &["h5"]),
    ("a = h5(); b = 1;", &["h5"]),
    ("X = h5(); a = 0; b = 1;", &["h5"]),
    ("r = h5(); r = 0;", &["h5"]),
    ("h6(); c = 1;", &["h5", "h6"]),
    ("h6(); h6();", &["h5", "h6"]),
    ("h6(); r = a + b;", &["h5", "h6"]),
    ("h7(); h7();", &["h5", "h7"]),
    ("h7(); c = b;", &["h5", "h7"]),
    ("h8(); h8();", &["h8"]),
    ("h8(); r = 1;", &["h8"]),
    ("if (a) { h8(); } r = 2;", &["h8"]),
    ("h9();", &["f0", "h9"]),
    ("h9(); h9();", &["f0", "h9"]),
    ("a = 7; if (a <= 5) r = 1; h1();", &["h1"]),
    ("switch (a) { case 1: r = f1(); break; default: r = f2(b); } c = r;", &["f1", "f2"]),
    ("for (X = 0; X < 2; X++) { if (f9(X)) continue; r++; }", &["f9"]),
    ("do { r = h2(); a++; } while (a < 6);", &["h2"]),
    ("r = h2() + h5();", &["h2", "h5"]),
    ("if (h2() && h5()) r = 1; else r = 2;", &["h2", "h5"]),
    ("f0(); f0(); g6();", &["f0", "g6"]),
    ("g1(); f0(); g6();", &["f0", "g1", "g6"]),
    ("r = f1(); r = f1(); c = f2(a);", &["f1", "f2"]),
    ("h9(); f0(); h3();", &["f0", "h3", "h9"]),
    ("r = h10(); if (r) c = 5;", &["h10"]),
    ("r = h10(); if (r == 0) c = 1; else c = 2;", &["h10"]),
    ("X = h10(); if (X) c = 5; else c = 6;", &["h10"]),
    ("r = h11(arr); if (r) c = 1; else c = 2;", &["h11"]),
    ("r = h11(tab); c = Y;", &["h11"]),
    ("r = h10() + 1; if (r) c = 5;", &["h10"]),
    ("if (h10()) c = 5; else c = 6;", &["h10"]),
    ("h12(); r = 2; if (X) Y = 3;", &["h12"]),
    ("if (b) h12(); r = c; h12();", &["h12"]),
    ("r = h13(a); if (r == 2) c = 4;", &["h13"]),
    ("if (X) r = 1; r = r + h13(b);", &["h13"]),
    ("h12(); r = h13(c);", &["h12", "h13"]),
];

/// extra program shapes for the call-graph property: interrupts, unused functions, prototypes
pub const C12_EXTRA: [&str; 11] = [
    "void nmi();\nvoid f0() { c = c + 1; }\nvoid interrupt nmi() { f0(); }\nvoid main()\n{\n  r = 1;\n}\n",
    "void interrupt nmi();\nvoid f0() { c = c + 1; }\nvoid nmi() { f0(); }\nvoid main()\n{\n  r = 1;\n}\n",
    "void f0() { c = c + 1; }\nvoid dead() { f0(); }\nvoid main()\n{\n  f0();\n}\n",
    "void f0() { c = c + 1; }\nvoid unused() { c = 0; }\nvoid main()\n{\n  f0();\n}\n",
    "void f0() { c = c + 1; }\nvoid tick() { f0(); }\nvoid unused() { c = 0; }\nvoid interrupt nmi() { tick(); }\nvoid main()\n{\n  r = 1;\n}\n",
    "void f0() { c = c + 1; }\nvoid interrupt nmi() { f0(); }\nvoid interrupt irq() { c = 2; }\nvoid main()\n{\n  r = 1;\n}\n",
    "void late();\nvoid early() { late(); }\nvoid late() { c = c + 1; }\nvoid main()\n{\n  early();\n}\n",
    "char f1() { return a + 1; }\nchar f2(char v) { return v + b; }\nvoid deep3() { c = f1(); }\nvoid deep2() { deep3(); }\nvoid deep1() { deep2(); r = f2(c); }\nvoid main()\n{\n  deep1();\n}\n",
    "void f0() { c = c + 1; }\ninline void w1() { f0(); }\ninline void w2() { w1(); w1(); }\nvoid main()\n{\n  w2();\n}\n",
    "char f1() { return a + 1; }\nvoid onlyarg(char v) { c = v; }\nvoid main()\n{\n  onlyarg(f1());\n  if (a && f1()) r = 2;\n}\n",
    "void f0() { c = c + 1; }\nvoid u1() { f0(); }\nvoid u2() { u1(); }\nvoid main()\n{\n  c = 1;\n}\n",
];

pub struct FnCase {
    pub body: &'static str,
    pub names: Vec<&'static str>,
}

pub fn fn_cases() -> Vec<FnCase> {
    BODIES
        .iter()
        .map(|(b, used)| {
            let mut names: Vec<&'static str> = Vec::new();
            for f in LIB.iter() {
                if used.contains(&f.name) {
                    names.push(f.name);
                }
            }
            FnCase { body: b, names }
        })
        .collect()
}

pub fn source_for(fc: &FnCase, mask: u32, proto_first: bool) -> String {
    let mut funcs = String::new();
    if proto_first {
        for nm in &fc.names {
            let f = LIB.iter().find(|f| f.name == *nm).unwrap();
            let head = f.text.split('{').next().unwrap().trim();
            funcs.push_str(&format!("{};\n", head));
        }
    }
    for (k, nm) in fc.names.iter().enumerate() {
        let f = LIB.iter().find(|f| f.name == *nm).unwrap();
        if (mask >> k) & 1 == 1 {
            funcs.push_str("inline ");
        }
        funcs.push_str(f.text);
        funcs.push('\n');
    }
    format!("{}{}void main()\n{{\n{}\n}}\n", D0_TEXT, funcs, fc.body)
}

fn small() -> Vec<(&'static str, &'static [i32])> {
    vec![("a", &[0, 1, 2, 3, 5, 0x80, 255]), ("b", &[0, 1, 2, 0x7f, 255]), ("c", &[0, 1, 4, 255]), ("X", &[0, 1, 2]), ("Y", &[0, 1, 3]), ("r", &[0]), ("s", &[0, 0x1ff])]
}

/// the call-site bodies as executable programs for the shared corpus: no function inlined, all inlined,
/// and each single function inlined
pub fn corpus_cases() -> Vec<SemCase> {
    let mut v = Vec::new();
    for fc in fn_cases() {
        let n = fc.names.len() as u32;
        let mut masks: Vec<u32> = vec![0, (1u32 << n) - 1];
        for k in 0..n {
            if n > 1 {
                masks.push(1 << k);
            }
        }
        for m in masks {
            v.push(sem_case(&source_for(&fc, m, false), if m == 0 { "F3.lib" } else { "F3.lib.inline" }));
        }
    }
    v
}

fn sem_case(src: &str, fam: &str) -> SemCase {
    case_from_text(fam, src, &small(), vec!["fn"], 400)
}

// ---------------------------------------------------------------------------------------
// C14

pub struct C14 {
    cases: OnceLock<Vec<FnCase>>,
}

impl C14 {
    pub fn new() -> C14 {
        C14 { cases: OnceLock::new() }
    }
    fn cs(&self) -> &Vec<FnCase> {
        self.cases.get_or_init(fn_cases)
    }
}

fn prep_tag(e: &PrepFail) -> String {
    match e {
        PrepFail::Rejected(er) => format!("rejected: {}", er.msg),
        PrepFail::Panic { loc, .. } => format!("panic@{}", loc),
        PrepFail::AsmErrors(er, _) => format!("asm-error: {}", er[0]),
        PrepFail::Layout(_) => "layout".into(),
        PrepFail::Bind(b) => format!("bind: {}", b),
    }
}

pub fn run_c14(fc: &FnCase) -> CaseOutcome {
    let base_src = source_for(fc, 0, false);
    let base_case = sem_case(&base_src, "F3.inline");
    let ident = format!("C14|{}", fc.body);
    let mut o = CaseOutcome::new(ident.clone());
    o.sample = json!({"body": fc.body, "functions": fc.names, "baseline_source": base_case.source()});
    for opt in ["-O1", "-O0"] {
        let base = match sem::prepare(&base_case, opt) {
            Ok(p) => p,
            Err(e) => {
                o.count(&format!("baseline {}", prep_tag(&e).chars().take(50).collect::<String>()), 1);
                o.status = Status::Rejected;
                continue;
            }
        };
        let rs0 = match sem::run_emu_all(&base_case, &base, exec::DEFAULT_BUDGET) {
            Ok(r) => r,
            Err(e) => {
                o.status = Status::Skipped(e);
                return o;
            }
        };
        o.evals += rs0.results.len() as u64;
        for (_, fs) in rs0.results.iter().take(6) {
            o.outcomes.push(exec::hash_state(fs));
        }
        let n = fc.names.len();
        for mask in 1..(1u32 << n) {
            let src = source_for(fc, mask, false);
            let case = sem_case(&src, "F3.inline");
            let p = match sem::prepare(&case, opt) {
                Ok(p) => p,
                Err(PrepFail::Rejected(e)) => {
                    o.count(&format!("variant rejected: {}", e.msg.chars().take(50).collect::<String>()), 1);
                    continue;
                }
                Err(e) => {
                    let t = prep_tag(&e);
                    o.fail(case_key(&format!("{}|{}|{}", ident, mask, opt)), "variant-not-executable", format!("F3.inline {} inline-mask={:b} tags={}\n--- source\n{}--- baseline executes, the variant gives {}", opt, mask, case.tags.join(","), case.source(), t));
                    continue;
                }
            };
            o.nontrivial = true;
            let rs = match sem::run_emu_all(&case, &p, exec::DEFAULT_BUDGET) {
                Ok(r) => r,
                Err(e) => {
                    o.status = Status::Skipped(e);
                    return o;
                }
            };
            o.evals += rs.results.len() as u64;
            for (k, (st, fs)) in rs.results.iter().enumerate() {
                let (st0, fs0) = &rs0.results[k];
                if st != st0 || !exec::states_equal_ignoring_hw(fs, fs0) {
                    // locals and parameters of inlined functions live at the same addresses (same declarations), so the whole RAM is compared
                    o.fail(
                        case_key(&format!("{}|{}|{}", ident, mask, opt)),
                        "inline-differs",
                        format!(
                            "F3.inline {} inline-mask={:b} tags={}\n--- source\n{}--- input [{}]: (emu = with inline, ref = without) stop {:?}/{:?} {}\n--- asm without inline\n{}--- asm with inline\n{}",
                            opt,
                            mask,
                            case.tags.join(","),
                            case.source(),
                            sem::fmt_init(&rs.inits[k]),
                            st,
                            st0,
                            exec::describe_diff(&p, fs, fs0),
                            sem::func_texts(&base),
                            sem::func_texts(&p)
                        ),
                    );
                    break;
                }
            }
        }
    }
    o
}

impl Check for C14 {
    fn prop(&self) -> &'static str {
        "C14"
    }
    fn level(&self) -> &'static str {
        "exploration"
    }
    fn rule(&self) -> String {
        "Programs = 108 call-site bodies (statement, operand of +, condition, argument of another call, inside for/while/do loops, two and three call sites, nested calls) over a library of 29 functions (void/char-returning, 0-2 parameters, pointer parameter, locals, loops, early returns from if and switch, comparisons against constants, constant returns, inline assembly with a size hint, functions calling further functions; call sites placed after statements that leave known constants or flag knowledge behind). For every program every non-empty subset of its functions is marked inline; the variant and the baseline (no inline) are compiled at -O1 and -O0 and co-executed on the emulator from every enumerated input; halting status, all RAM, X and Y must be identical. A variant the compiler rejects is counted, not judged. Non-trivial = at least one inline variant executed; distinct = distinct body.".into()
    }
    fn assumptions(&self) -> Vec<String> {
        vec!["purely differential: no reference model".into(), "the harness layout gives every local/parameter its own address, identical with and without inline".into()]
    }
    fn n_cases(&self, _tier: Tier) -> usize {
        self.cs().len()
    }
    fn case_ident(&self, _tier: Tier, idx: usize) -> String {
        format!("C14|{}", self.cs()[idx].body)
    }
    fn run_case(&self, _tier: Tier, idx: usize) -> CaseOutcome {
        run_c14(&self.cs()[idx])
    }
    fn bounds(&self, _tier: Tier) -> Value {
        json!({"bodies": BODIES.len(), "library_functions": LIB.len(), "inline_subsets": "all", "levels": ["-O0", "-O1"]})
    }
}

// ---------------------------------------------------------------------------------------
// C12

fn static_calls(p: &Program) -> BTreeMap<String, BTreeSet<String>> {
    fn walk_e(e: &E, out: &mut BTreeSet<String>) {
        match e {
            E::Call(f, args) => {
                out.insert(f.clone());
                for a in args {
                    walk_e(a, out);
                }
            }
            E::Idx(_, i) => walk_e(i, out),
            E::Un(_, a) | E::Paren(a) => walk_e(a, out),
            E::Bin(_, a, b) | E::Asg(_, a, b) | E::Comma(a, b) => {
                walk_e(a, out);
                walk_e(b, out);
            }
            E::Inc { e, .. } => walk_e(e, out),
            E::Cond(c, a, b) => {
                walk_e(c, out);
                walk_e(a, out);
                walk_e(b, out);
            }
            _ => {}
        }
    }
    fn walk_s(s: &S, out: &mut BTreeSet<String>) {
        match s {
            S::Expr(e) | S::Load(e) | S::Store(e) => walk_e(e, out),
            S::If(c, a, b) => {
                walk_e(c, out);
                walk_s(a, out);
                if let Some(b) = b {
                    walk_s(b, out);
                }
            }
            S::While(c, b) | S::DoWhile(b, c) => {
                walk_e(c, out);
                walk_s(b, out);
            }
            S::For(i, c, u, b) => {
                for x in [i, c, u].into_iter().flatten() {
                    walk_e(x, out);
                }
                walk_s(b, out);
            }
            S::Switch(e, cs) => {
                walk_e(e, out);
                for c in cs {
                    for s in &c.body {
                        walk_s(s, out);
                    }
                }
            }
            S::Return(Some(e)) => walk_e(e, out),
            S::Block(v) => {
                for s in v {
                    walk_s(s, out);
                }
            }
            S::Decl(ds) => {
                for d in ds {
                    if let Some(i) = &d.init {
                        walk_e(i, out);
                    }
                }
            }
            S::Label(_, s) => walk_s(s, out),
            _ => {}
        }
    }
    let mut m = BTreeMap::new();
    for f in &p.funcs {
        let mut out = BTreeSet::new();
        for s in &f.body {
            walk_s(s, &mut out);
        }
        m.insert(f.name.clone(), out);
    }
    m
}

pub struct C12 {
    srcs: OnceLock<Vec<(String, String)>>,
}

impl C12 {
    pub fn new() -> C12 {
        C12 { srcs: OnceLock::new() }
    }
    fn cs(&self) -> &Vec<(String, String)> {
        self.srcs.get_or_init(|| {
            let mut v = Vec::new();
            for fc in fn_cases() {
                let n = fc.names.len();
                for mask in 0..(1u32 << n) {
                    v.push((format!("{} mask={:b}", fc.body, mask), source_for(&fc, mask, false)));
                }
                v.push((format!("{} proto-first", fc.body), source_for(&fc, 0, true)));
            }
            for (k, e) in C12_EXTRA.iter().enumerate() {
                v.push((format!("extra{}", k), format!("{}{}", D0_TEXT, e)));
            }
            v
        })
    }
}

pub fn run_c12(name: &str, src: &str) -> CaseOutcome {
    let ident = format!("C12|{}", name);
    let mut o = CaseOutcome::new(ident.clone());
    let prog = match cparse::parse_program(src) {
        Ok(p) => p,
        Err(e) => {
            o.status = Status::Skipped(format!("harness parse: {}", e));
            return o;
        }
    };
    let expect = static_calls(&prog);
    let coord = format!("coord:C12:{}", name);
    for opt in ["-O1", "-O0"] {
        let (out, _) = crate::drv::compile_src(src.as_bytes(), &[opt]);
        let rec = match out {
            crate::drv::Outcome::Ok(r) => r,
            crate::drv::Outcome::Err(e) => {
                o.count(&format!("rejected: {}", e.msg.chars().take(50).collect::<String>()), 1);
                o.status = Status::Rejected;
                continue;
            }
            crate::drv::Outcome::Panic { loc, msg } => {
                o.fail(coord.clone(), "panic", format!("{} {}: panic at {}: {}\n{}", name, opt, loc, msg, src));
                continue;
            }
        };
        o.evals += 1;
        o.nontrivial = true;
        // closure of the published tree
        let closure = |from: &str| -> BTreeSet<String> {
            let mut seen = BTreeSet::new();
            let mut st = vec![from.to_string()];
            while let Some(x) = st.pop() {
                if seen.insert(x.clone()) {
                    if let Some(v) = rec.call_tree.get(&x) {
                        for y in v {
                            st.push(y.clone());
                        }
                    }
                }
            }
            seen
        };
        let show = || format!("--- published call tree {:?}\n--- published in-use set {:?}\n--- source\n{}", rec.call_tree, rec.in_use, src);
        // (a) every call written in the source is a direct edge of the tree
        for (f, callees) in &expect {
            let fi = rec.funcs.iter().find(|x| &x.name == f);
            if fi.map(|x| x.has_code).unwrap_or(false) {
                let have: BTreeSet<String> = rec.call_tree.get(f).map(|v| v.iter().cloned().collect()).unwrap_or_default();
                for c in callees {
                    if !have.contains(c) {
                        o.fail(coord.clone(), "call-not-recorded", format!("{} {}: {} calls {} but the call tree of {} is {:?}\n{}", name, opt, f, c, f, have, show()));
                        return o;
                    }
                }
            }
        }
        // (b) every JSR in the emitted text of f goes to a function in the closure from f
        for f in &rec.funcs {
            if !f.has_code {
                continue;
            }
            let cl = closure(&f.name);
            for l in f.text.lines() {
                let t = l.trim();
                if let Some(tg) = t.strip_prefix("JSR ") {
                    let tg = tg.split_whitespace().next().unwrap_or("");
                    if !cl.contains(tg) {
                        o.fail(coord.clone(), "jsr-not-in-tree", format!("{} {}: {} contains 'JSR {}' but {} is not reachable from {} in the call tree\n--- code of {}\n{}{}", name, opt, f.name, tg, tg, f.name, f.name, f.text, show()));
                        return o;
                    }
                }
            }
        }
        // (c) in-use set == reachability from main and the interrupt handlers
        let mut want: BTreeSet<String> = closure("main");
        for f in &rec.funcs {
            if f.interrupt {
                want.extend(closure(&f.name));
            }
        }
        o.outcomes.push(hash64(&format!("{:?}", rec.in_use)));
        if want != rec.in_use {
            o.fail(coord.clone(), "in-use-set-differs", format!("{} {}: reachability from main and the interrupt handlers gives {:?}\n{}", name, opt, want, show()));
            return o;
        }
        // (d) source-level reachability (independent of the published tree)
        let mut src_reach: BTreeSet<String> = BTreeSet::new();
        let mut st: Vec<String> = vec!["main".to_string()];
        for f in &prog.funcs {
            if f.interrupt {
                st.push(f.name.clone());
            }
        }
        while let Some(x) = st.pop() {
            if src_reach.insert(x.clone()) {
                if let Some(v) = expect.get(&x) {
                    for y in v {
                        st.push(y.clone());
                    }
                }
            }
        }
        if !src_reach.is_subset(&rec.in_use) {
            o.fail(coord.clone(), "reachable-function-not-in-use", format!("{} {}: the source reaches {:?}\n{}", name, opt, src_reach, show()));
            return o;
        }
    }
    o.sample = json!({"name": name, "source": src});
    o
}

impl Check for C12 {
    fn prop(&self) -> &'static str {
        "C12"
    }
    fn level(&self) -> &'static str {
        "exploration"
    }
    fn rule(&self) -> String {
        "Programs = the 108 call-site bodies of family F3 with every subset of their functions marked inline, a prototype-first variant, plus programs with unused functions, interrupt handlers (with and without callees), call chains three deep, nested inline wrappers and calls inside arguments and conditions; at -O0 and -O1. Oracle, four independent views: (a) every call written in the source of f (taken from the harness's own parse) is a direct edge of functions_call_tree[f]; (b) every 'JSR t' in write_function(f) goes to a function in the reflexive-transitive closure of the tree from f; (c) functions_actually_in_use equals reachability from main and all interrupt functions over the published tree; (d) every function the source reaches from main / interrupt handlers is in the set. Non-trivial = accepted; distinct outcomes = distinct in-use sets.".into()
    }
    fn assumptions(&self) -> Vec<String> {
        vec!["direct recursion and function pointers are outside the family".into()]
    }
    fn n_cases(&self, _tier: Tier) -> usize {
        self.cs().len()
    }
    fn case_ident(&self, _tier: Tier, idx: usize) -> String {
        format!("C12|{}", self.cs()[idx].0)
    }
    fn run_case(&self, _tier: Tier, idx: usize) -> CaseOutcome {
        let (n, s) = &self.cs()[idx];
        run_c12(n, s)
    }
    fn bounds(&self, _tier: Tier) -> Value {
        json!({"programs": self.cs().len(), "levels": ["-O0", "-O1"]})
    }
}
