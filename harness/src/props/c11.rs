//! C11 — comments, layout and listing options never affect behaviour.

use crate::cparse;
use crate::drv::{self, Outcome, Record};
use crate::engine::{hash64, CaseOutcome, Check, Status, Tier};
use crate::exec;
use crate::gen2;
use crate::props::c16::{tokens, CORPUS};
use crate::sem::{self, SemCase};
use serde_json::{json, Value};
use std::sync::OnceLock;

pub const DECOS: [(&str, &str); 23] = [
    ("space", " "),
    ("tab", "\t"),
    ("newline", "\n"),
    ("crlf", "\r\n"),
    ("blank-lines", "\n\n"),
    ("block", "/* c */"),
    ("block-with-slashes", "/* // */"),
    ("block-with-quote", "/* \" */"),
    ("block-with-directive", "/* #if 0 */"),
    ("block-with-url", "/* http://x */"),
    ("empty-block", "/**/"),
    ("block-2-lines", "/* a\n b */"),
    ("line-comment", "// c\n"),
    ("line-comment-with-opener", "// /* \n"),
    ("line-comment-with-quote", "// \"q\"\n"),
    ("splice", "\\\n"),
    ("block-star", "/* * / */"),
    ("two-blocks", "/* a *//* b */"),
    ("two-blocks-url", "/* set *//* see http://x */"),
    ("block-then-line-comment", "/* a */// b\n"),
    ("line-comment-star", "//*** banner ***\n"),
    ("line-comment-star-slash", "//*/ x\n"),
    ("line-comment-slashes", "//// x // y\n"),
];

#[derive(Clone, Debug)]
pub enum Variant {
    Gap(usize, usize),
    TwoGaps(usize, usize, usize, usize),
    /// the single blank between two tokens replaced by a block comment (k-th such blank, decoration)
    ReplaceSep(usize, usize),
    /// the single blank between a word and a bracket / separator (or two of those) removed: `do {` -> `do{`
    RemoveSep(usize),
    AllCrLf,
    NoFinalNewline,
    Options(Vec<&'static str>),
}

pub struct DCase {
    pub prog: usize,
    pub variant: Variant,
}

pub fn base_programs() -> Vec<String> {
    let mut v: Vec<String> = CORPUS.iter().map(|s| s.to_string()).collect();
    // a slice of the control-flow and function families
    for (k, c) in gen2::f2(Tier::Quick).into_iter().enumerate() {
        if k % 97 == 0 {
            v.push(c.source());
        }
    }
    for (c, _, _) in gen2::f3(Tier::Quick, false).into_iter().step_by(5) {
        v.push(c.source());
    }
    // every statement keyword followed by a blank and a bracket (appended last: the indices above are part of the case keys)
    v.push("char a, b;\nvoid main()\n{\n  do {\n    a++;\n  } while (a < 3);\n  if (a) { b = 1; } else { b = 2; }\n  for (X = 0; X < 2; X++) { b++; }\n  while (b) { b--; }\n  switch (a) { case 1: b = 3; break; default: b = 4; }\n  do a--; while (a);\n}\n".to_string());
    v
}

/// may the blank t[i] be removed without merging its neighbours into another token?
fn removable(t: &[String], i: usize) -> bool {
    let l = t[i - 1].chars().last().unwrap_or(' ');
    let r = t[i + 1].chars().next().unwrap_or(' ');
    let word = |c: char| c.is_ascii_alphanumeric() || c == '_';
    let sep = |c: char| "(){}[];,".contains(c);
    (word(l) && sep(r)) || (sep(l) && word(r)) || (sep(l) && sep(r))
}

/// positions (token indices) where a decoration may be inserted: after a non-blank token that is
/// not on a preprocessor line and not the last token
pub fn gaps(src: &str) -> (Vec<String>, Vec<usize>) {
    let t = tokens(src);
    let mut g = Vec::new();
    // find line starts to exclude directive lines and // comment tails
    let mut in_directive = false;
    let mut in_line_comment = false;
    let mut in_block = false;
    let mut at_line_start = true;
    for (i, tok) in t.iter().enumerate() {
        if tok.contains('\n') {
            in_directive = false;
            in_line_comment = false;
            at_line_start = true;
            continue;
        }
        if tok.trim().is_empty() {
            continue;
        }
        if at_line_start && tok == "#" {
            in_directive = true;
        }
        at_line_start = false;
        // comment tracking on the token level
        if tok == "/" && t.get(i + 1).map(|x| x == "/").unwrap_or(false) {
            in_line_comment = true;
        }
        if tok == "/" && t.get(i + 1).map(|x| x == "*").unwrap_or(false) {
            in_block = true;
        }
        let closes = tok == "/" && i > 0 && t[i - 1] == "*";
        if in_directive || in_line_comment || in_block {
            if closes {
                in_block = false;
            }
            continue;
        }
        // not between two characters that would form another token with the neighbour
        if i + 1 < t.len() {
            g.push(i);
        }
    }
    (t, g)
}

/// token indices of blanks that are exactly one space between two non-blank tokens on a code line
pub fn single_blanks(src: &str) -> (Vec<String>, Vec<usize>) {
    let (t, g) = gaps(src);
    let mut v = Vec::new();
    for gi in &g {
        // g holds tokens after which a decoration may be inserted: the blank follows such a token
        let i = *gi + 1;
        if i + 1 < t.len() && t[i] == " " && !t[i + 1].trim().is_empty() && !t[i + 1].contains('\n') {
            v.push(i);
        }
    }
    (t, v)
}

fn decorate(t: &[String], at: &[(usize, usize)]) -> String {
    let mut s = String::new();
    for (i, tok) in t.iter().enumerate() {
        s.push_str(tok);
        for (g, d) in at {
            if *g == i {
                s.push_str(DECOS[*d].1);
            }
        }
    }
    s
}

pub fn cases(tier: Tier) -> Vec<DCase> {
    let progs = base_programs();
    let mut v = Vec::new();
    for (pi, p) in progs.iter().enumerate() {
        let (_t, g) = gaps(p);
        if tier == Tier::Quick && pi % 2 == 1 && pi >= CORPUS.len() && pi + 1 != progs.len() {
            continue;
        }
        for gi in 0..g.len() {
            for d in 0..DECOS.len() {
                if tier == Tier::Quick && (gi + d) % 3 != 0 && d > 4 {
                    continue;
                }
                v.push(DCase { prog: pi, variant: Variant::Gap(gi, d) });
            }
        }
        {
            let (_t2, blanks) = single_blanks(p);
            for k in 0..blanks.len() {
                for d in [5usize, 10, 11, 8] {
                    if tier == Tier::Quick && d != 10 && (k + d) % 2 != 0 {
                        continue;
                    }
                    v.push(DCase { prog: pi, variant: Variant::ReplaceSep(k, d) });
                }
                if removable(&_t2, blanks[k]) {
                    v.push(DCase { prog: pi, variant: Variant::RemoveSep(k) });
                }
            }
        }
        if tier == Tier::Thorough {
            // pairs of gaps with the comment decorations
            for g1 in (0..g.len()).step_by(3) {
                for g2 in (g1 + 1..g.len()).step_by(5) {
                    for (d1, d2) in [(5usize, 12usize), (12, 5), (11, 13), (9, 6), (15, 7)] {
                        v.push(DCase { prog: pi, variant: Variant::TwoGaps(g1, d1, g2, d2) });
                    }
                }
            }
        }
        v.push(DCase { prog: pi, variant: Variant::AllCrLf });
        v.push(DCase { prog: pi, variant: Variant::NoFinalNewline });
        for o in [vec!["--insert-code"], vec!["-Wall"], vec!["-Wperf"], vec!["--insert-code", "-Wall"], vec!["-v"]] {
            v.push(DCase { prog: pi, variant: Variant::Options(o) });
        }
    }
    v
}

fn digest(rec: &Record) -> (Vec<String>, Vec<(String, String)>) {
    let vars: Vec<String> = rec.vars.iter().map(|v| format!("{:?}", v)).collect();
    let funcs: Vec<(String, String)> = rec.funcs.iter().map(|f| (format!("{} inline={} bank={} int={}", f.name, f.inline, f.bank, f.interrupt), drv::strip_text(&f.text))).collect();
    (vars, funcs)
}

fn coexec_equal(src: &str, base_opts: &[&str], var_opts: &[&str]) -> Result<bool, String> {
    let prog = cparse::parse_program(src)?;
    let inputs = sem::cap_inputs(sem::derive_inputs(&prog, false), 200);
    let case = SemCase { family: "C11".into(), prog, inputs, extra_opts: vec![], logged: vec![], tags: vec![] };
    let mut inl = std::collections::HashMap::new();
    crate::ast::collect_asm(&case.prog, &mut inl);
    let pa = exec::compile_and_assemble(src, base_opts, inl.clone()).map_err(|e| format!("{:?}", e).chars().take(100).collect::<String>())?;
    let pb = exec::compile_and_assemble(src, var_opts, inl).map_err(|e| format!("{:?}", e).chars().take(100).collect::<String>())?;
    let ra = sem::run_emu_all(&case, &pa, exec::DEFAULT_BUDGET)?;
    let rb = sem::run_emu_all(&case, &pb, exec::DEFAULT_BUDGET)?;
    for (a, b) in ra.results.iter().zip(rb.results.iter()) {
        if a.0 != b.0 || a.1 != b.1 {
            return Ok(false);
        }
    }
    Ok(true)
}

pub fn run(progs: &[String], c: &DCase) -> CaseOutcome {
    let base = &progs[c.prog];
    let (t, g) = gaps(base);
    let (src, vname, opts_var): (String, String, Vec<&'static str>) = match &c.variant {
        Variant::Gap(gi, d) => (decorate(&t, &[(g[*gi], *d)]), format!("gap {} ({:?} | {:?}) + {}", gi, t[g[*gi]], t.get(g[*gi] + 1).map(|s| s.trim()).unwrap_or(""), DECOS[*d].0), vec![]),
        Variant::TwoGaps(g1, d1, g2, d2) => (decorate(&t, &[(g[*g1], *d1), (g[*g2], *d2)]), format!("gaps {}+{} {}+{}", g1, g2, DECOS[*d1].0, DECOS[*d2].0), vec![]),
        Variant::ReplaceSep(k, d) => {
            let (t2, blanks) = single_blanks(base);
            let mut t3 = t2.clone();
            t3[blanks[*k]] = DECOS[*d].1.to_string();
            (t3.concat(), format!("blank {} ({:?} | {:?}) replaced by {}", k, t2[blanks[*k] - 1], t2[blanks[*k] + 1], DECOS[*d].0), vec![])
        }
        Variant::RemoveSep(k) => {
            let (t2, blanks) = single_blanks(base);
            let mut t3 = t2.clone();
            t3[blanks[*k]] = String::new();
            (t3.concat(), format!("blank {} ({:?} | {:?}) removed", k, t2[blanks[*k] - 1], t2[blanks[*k] + 1]), vec![])
        }
        Variant::AllCrLf => (base.replace('\n', "\r\n"), "all line ends CR-LF".into(), vec![]),
        Variant::NoFinalNewline => (base.trim_end_matches('\n').to_string(), "no final newline".into(), vec![]),
        Variant::Options(o) => (base.clone(), format!("options {:?}", o), o.clone()),
    };
    let ident = format!("C11|p{}|{}", c.prog, vname);
    let coord = format!("coord:C11:p{}:{}", c.prog, vname);
    let mut o = CaseOutcome::new(ident);
    let mut fail = |o: &mut CaseOutcome, kind: &str, what: String| {
        o.fail(coord.clone(), kind, format!("program p{} variant: {}\n--- {}\n--- plain source\n{}\n--- variant source\n{}", c.prog, vname, what, base, src));
    };
    for level in ["-O1", "-O0"] {
        let (b, _) = drv::compile_src(base.as_bytes(), &[level]);
        let mut ov: Vec<&str> = vec![level];
        ov.extend(opts_var.iter());
        let (v, _) = drv::compile_src(src.as_bytes(), &ov);
        o.evals += 1;
        match (&b, &v) {
            (Outcome::Ok(rb), Outcome::Ok(rv)) => {
                o.nontrivial = true;
                let (vb, fb) = digest(rb);
                let (vv, fv) = digest(rv);
                o.outcomes.push(hash64(&format!("{:?}", fb)));
                if vb != vv {
                    let d = vb.iter().zip(vv.iter()).find(|(a, b)| a != b).map(|(a, b)| format!("{} <> {}", a, b)).unwrap_or_else(|| format!("{} vs {} declarations", vb.len(), vv.len()));
                    fail(&mut o, "declarations-differ", format!("{}: {}", level, d));
                    return o;
                }
                if fb != fv {
                    if matches!(c.variant, Variant::Options(_)) {
                        // listing options may legitimately change what the peephole pass sees: co-execute
                        match coexec_equal(base, &[level], &ov) {
                            Ok(true) => o.count("text-differs-but-coexecution-equal", 1),
                            Ok(false) => {
                                fail(&mut o, "behaviour-differs", format!("{}: instruction text differs and the final states differ", level));
                                return o;
                            }
                            Err(e) => {
                                fail(&mut o, "text-differs", format!("{}: instruction text differs (co-execution not possible: {})", level, e));
                                return o;
                            }
                        }
                    } else {
                        let d = fb.iter().zip(fv.iter()).find(|(a, b)| a != b).map(|(a, b)| format!("--- plain {}\n{}--- variant {}\n{}", a.0, a.1, b.0, b.1)).unwrap_or_default();
                        fail(&mut o, "code-differs", format!("{}: emitted instructions differ\n{}", level, d));
                        return o;
                    }
                }
            }
            (Outcome::Err(_), Outcome::Err(_)) => {
                o.status = Status::Rejected;
            }
            (Outcome::Ok(_), other) => {
                fail(&mut o, "variant-rejected", format!("{}: the plain program compiles, the variant gives {}", level, short(other)));
                return o;
            }
            (other, Outcome::Ok(_)) => {
                fail(&mut o, "plain-rejected", format!("{}: the variant compiles, the plain program gives {}", level, short(other)));
                return o;
            }
            (a, b) => {
                fail(&mut o, "crash", format!("{}: plain {} / variant {}", level, short(a), short(b)));
                return o;
            }
        }
    }
    o.sample = json!({"program": c.prog, "variant": vname, "source": src});
    o
}

fn short(o: &Outcome) -> String {
    match o {
        Outcome::Ok(_) => "Ok".into(),
        Outcome::Err(e) => format!("Err({} line {}: {})", e.kind, e.line, e.msg),
        Outcome::Panic { loc, msg } => format!("Panic at {}: {}", loc, msg),
    }
}

pub struct C11 {
    progs: OnceLock<Vec<String>>,
    q: OnceLock<Vec<DCase>>,
    t: OnceLock<Vec<DCase>>,
}

impl C11 {
    pub fn new() -> C11 {
        C11 { progs: OnceLock::new(), q: OnceLock::new(), t: OnceLock::new() }
    }
    fn cs(&self, tier: Tier) -> &Vec<DCase> {
        match tier {
            Tier::Quick => self.q.get_or_init(|| cases(tier)),
            Tier::Thorough => self.t.get_or_init(|| cases(tier)),
        }
    }
    fn pr(&self) -> &Vec<String> {
        self.progs.get_or_init(base_programs)
    }
}

impl Check for C11 {
    fn prop(&self) -> &'static str {
        "C11"
    }
    fn level(&self) -> &'static str {
        "exploration"
    }
    fn rule(&self) -> String {
        "Base programs: the 30-program corpus (all statement kinds, preprocessor lines, comments) plus a slice of the control-flow and function families. Variants: each of 17 decorations (space, tab, newline, CR-LF, blank lines, block comments containing //, a quote, a directive, a URL, '* /', empty and two-line block comments, // comments containing /* and quotes, backslash-newline) inserted at every token gap outside directive lines, one gap at a time in addition to the existing separator (thorough: also pairs of gaps), and every single blank between two tokens replaced by a block comment (a comment separates tokens like a blank); all line ends CR-LF; no final newline; options --insert_code, -Wall, -Wperf, -v. Oracle (differential): same ordered declaration list and, per function, identical instruction text at -O0 and -O1 (comments and cycle annotations stripped); for option variants a text difference is followed by co-execution on the emulator from all enumerated inputs and only a behavioural difference is a violation. A variant that turns an accepted program into a rejected one is a violation. Non-trivial = both sides compiled; distinct = distinct (program, variant).".into()
    }
    fn assumptions(&self) -> Vec<String> {
        vec!["decorations are never inserted inside directive lines or existing comments".into(), "a decoration never replaces the only separator between two word tokens".into()]
    }
    fn n_cases(&self, tier: Tier) -> usize {
        self.cs(tier).len()
    }
    fn case_ident(&self, tier: Tier, idx: usize) -> String {
        let c = &self.cs(tier)[idx];
        format!("C11|p{}|{:?}", c.prog, c.variant)
    }
    fn run_case(&self, tier: Tier, idx: usize) -> CaseOutcome {
        run(self.pr(), &self.cs(tier)[idx])
    }
    fn bounds(&self, tier: Tier) -> Value {
        let _ = tier;
        json!({"base_programs": self.pr().len(), "decorations": DECOS.iter().map(|d| d.0).collect::<Vec<_>>(), "option_variants": 5})
    }
}
