//! C03 — conditional branches always reach; long-branch repair preserves control flow.
//! Part 1: explicit exploration of branch layouts built through the public AssemblyCode API;
//! Part 2: generated programs with large bodies (family F8).

use crate::asm65::{self, AsmOptions};
use crate::drv::{FuncInfo, Record};
use crate::emu65::{self, Cpu, Stop};
use crate::engine::{case_key, CaseOutcome, Check, Status, Tier};
use crate::gen2;
use crate::props::c01;
use crate::sem::SemCase;
use cc6502::assemble::{AsmInstruction, AsmMnemonic, AssemblyCode};
use serde_json::{json, Value};
use std::collections::HashMap;
use std::sync::OnceLock;

#[derive(Clone, Debug, PartialEq)]
pub enum Item {
    Marker(u8),
    Branch(&'static str, String),
    Jmp(String),
    Label(String),
    /// filler style, bytes
    Fill(u8, u32),
}

#[derive(Clone, Debug)]
pub struct Layout {
    pub name: String,
    pub items: Vec<Item>,
}

fn mnemonic(m: &str) -> AsmMnemonic {
    match m {
        "BEQ" => AsmMnemonic::BEQ,
        "BNE" => AsmMnemonic::BNE,
        "BCC" => AsmMnemonic::BCC,
        "BCS" => AsmMnemonic::BCS,
        "BMI" => AsmMnemonic::BMI,
        "BPL" => AsmMnemonic::BPL,
        _ => unreachable!(),
    }
}

fn inst(m: AsmMnemonic, op: &str, n: u32) -> AsmInstruction {
    AsmInstruction { mnemonic: m, dasm_operand: op.to_string(), cycles: 2, cycles_alt: None, nb_bytes: n, protected: false }
}

/// emit `bytes` bytes of flag-neutral filler in the given style
fn emit_fill(code: &mut AssemblyCode, style: u8, bytes: u32) {
    let mut left = bytes;
    let unit = match style {
        0 => 1,
        1 => 2,
        2 => 3,
        3 => 1,
        4 => 3,
        _ => 5,
    };
    while left >= unit {
        match style {
            0 => code.append_asm(inst(AsmMnemonic::NOP, "", 1)),
            1 => code.append_asm(inst(AsmMnemonic::STA, "$3D", 2)),
            2 => code.append_asm(inst(AsmMnemonic::STA, "$0141", 3)),
            3 => code.append_inline("NOP".into(), Some(1)),
            4 => code.append_inline("STA $0142".into(), None),
            _ => code.append_inline(".byte $EA,$EA,$EA,$EA,$EA".into(), Some(5)),
        }
        left -= unit;
    }
    while left > 0 {
        code.append_asm(inst(AsmMnemonic::NOP, "", 1));
        left -= 1;
    }
}

pub fn build_code(l: &Layout) -> AssemblyCode {
    let mut code = AssemblyCode::new();
    for it in &l.items {
        match it {
            Item::Marker(k) => code.append_asm(inst(AsmMnemonic::STA, &format!("${:02X}", 0x40 + *k as u32), 2)),
            Item::Branch(m, lab) => {
                let mut i = inst(mnemonic(m), lab, 2);
                i.cycles_alt = Some(3);
                code.append_asm(i)
            }
            Item::Jmp(lab) => code.append_asm(inst(AsmMnemonic::JMP, lab, 3)),
            Item::Label(lab) => code.append_label(lab.clone()),
            Item::Fill(style, n) => emit_fill(&mut code, *style, *n),
        }
    }
    code
}

fn taken(m: &str, n: bool, z: bool, c: bool) -> bool {
    match m {
        "BEQ" => z,
        "BNE" => !z,
        "BCC" => !c,
        "BCS" => c,
        "BMI" => n,
        "BPL" => !n,
        _ => unreachable!(),
    }
}

/// ideal (unlimited-range) semantics of the layout: sequence of markers reached; None = no termination
pub fn ideal_trace(l: &Layout, n: bool, z: bool, c: bool) -> (Option<Vec<u8>>, u64) {
    let mut pc = 0usize;
    let mut out = Vec::new();
    let mut steps = 0u64;
    while pc < l.items.len() {
        steps += 1;
        if steps > 10_000 {
            return (None, steps);
        }
        match &l.items[pc] {
            Item::Marker(k) => {
                out.push(*k);
                pc += 1;
            }
            Item::Branch(m, lab) => {
                if taken(m, n, z, c) {
                    pc = l.items.iter().position(|x| matches!(x, Item::Label(s) if s == lab)).expect("label");
                } else {
                    pc += 1;
                }
            }
            Item::Jmp(lab) => pc = l.items.iter().position(|x| matches!(x, Item::Label(s) if s == lab)).expect("label"),
            Item::Label(_) | Item::Fill(..) => pc += 1,
        }
    }
    (Some(out), steps)
}

fn fwd(kinds: &[&'static str], dist: u32, style: u8) -> Layout {
    // STA m0 / Bcc .L [/ Bcc2 .L] / fill / STA m1 / .L / STA m2
    let mut items = vec![Item::Marker(0)];
    for k in kinds {
        items.push(Item::Branch(k, ".L".into()));
    }
    // distance counted from the end of the (last) branch to the label = fill + 2 (marker)
    items.push(Item::Fill(style, dist.saturating_sub(2)));
    items.push(Item::Marker(1));
    items.push(Item::Label(".L".into()));
    items.push(Item::Marker(2));
    Layout { name: format!("fwd {:?} d={} style={}", kinds, dist, style), items }
}

/// a far branch immediately followed by a BEQ that goes somewhere else (near), forward and backward:
/// the repair of a BCC/BMI + BEQ pair applies only when both go to the same label
fn fwd_other(k1: &'static str, k2: &'static str, dist: u32, style: u8, second_far: bool) -> Layout {
    // STA m0 / K1 .L / K2 .N / STA m4 / .N / fill / STA m1 / .L / STA m2      (second_far: K2 goes to .L2 after .L)
    let mut items = vec![Item::Marker(0), Item::Branch(k1, ".L".into())];
    if second_far {
        items.push(Item::Branch(k2, ".L2".into()));
        items.push(Item::Fill(style, dist.saturating_sub(4)));
        items.push(Item::Marker(1));
        items.push(Item::Label(".L".into()));
        items.push(Item::Marker(2));
        items.push(Item::Label(".L2".into()));
        items.push(Item::Marker(3));
    } else {
        items.push(Item::Branch(k2, ".N".into()));
        items.push(Item::Marker(4));
        items.push(Item::Label(".N".into()));
        items.push(Item::Fill(style, dist.saturating_sub(6)));
        items.push(Item::Marker(1));
        items.push(Item::Label(".L".into()));
        items.push(Item::Marker(2));
    }
    Layout { name: format!("fwd-other {} then {} d={} style={} second_far={}", k1, k2, dist, style, second_far), items }
}

fn bwd(kinds: &[&'static str], dist: u32, style: u8) -> Layout {
    // JMP .start / .L / STA m1 / JMP .end / .start / STA m0 / fill / Bcc .L / STA m2 / .end / STA m3
    let mut items = vec![Item::Jmp(".start".into()), Item::Label(".L".into()), Item::Marker(1), Item::Jmp(".end".into()), Item::Label(".start".into()), Item::Marker(0)];
    // bytes between .L and the branch: 2 + 3 + 2 + fill
    items.push(Item::Fill(style, dist.saturating_sub(7)));
    for k in kinds {
        items.push(Item::Branch(k, ".L".into()));
    }
    items.push(Item::Marker(2));
    items.push(Item::Label(".end".into()));
    items.push(Item::Marker(3));
    Layout { name: format!("bwd {:?} d={} style={}", kinds, dist, style), items }
}

const KINDS: [&[&str]; 8] = [&["BEQ"], &["BNE"], &["BCC"], &["BCS"], &["BMI"], &["BPL"], &["BCC", "BEQ"], &["BMI", "BEQ"]];

fn cascade2(k1: &'static [&'static str], k2: &'static [&'static str], a: u32, s1: u32, s2: u32, nested: bool, style: u8) -> Option<Layout> {
    // overlap: B1 .L1 / fill a / M1 / B2 .L2 / fill b / .L1 / M2 / fill c / .L2 / M3
    // nested : B1 .L1 / fill a / M1 / B2 .L2 / fill b / .L2 / M2 / fill c / .L1 / M3
    // s1 = span of B1 (bytes from after B1 to .L1), s2 = span of B2
    let b2len = 2 * k2.len() as u32;
    let mut items = vec![Item::Marker(0)];
    for k in k1 {
        items.push(Item::Branch(k, ".L1".into()));
    }
    items.push(Item::Fill(style, a));
    items.push(Item::Marker(1));
    for k in k2 {
        items.push(Item::Branch(k, ".L2".into()));
    }
    if !nested {
        // s1 = a + 2 + b2len + b  =>  b = s1 - a - 2 - b2len ; s2 = b + 2 + c
        let b = s1.checked_sub(a + 2 + b2len)?;
        let c = s2.checked_sub(b + 2)?;
        items.push(Item::Fill(style, b));
        items.push(Item::Label(".L1".into()));
        items.push(Item::Marker(2));
        items.push(Item::Fill(style, c));
        items.push(Item::Label(".L2".into()));
    } else {
        // s2 = b ; s1 = a + 2 + b2len + b + 2 + c
        let b = s2;
        let c = s1.checked_sub(a + 2 + b2len + b + 2)?;
        items.push(Item::Fill(style, b));
        items.push(Item::Label(".L2".into()));
        items.push(Item::Marker(2));
        items.push(Item::Fill(style, c));
        items.push(Item::Label(".L1".into()));
    }
    items.push(Item::Marker(3));
    Some(Layout { name: format!("cascade2 {:?} {:?} a={} s1={} s2={} nested={} style={}", k1, k2, a, s1, s2, nested, style), items })
}

fn cascade3(k: [&'static [&'static str]; 3], s: [u32; 3], style: u8) -> Option<Layout> {
    // three staggered forward branches: Bi .Li opened every 4 bytes, each label placed so that the span of Bi is s[i]
    // B1 / M / B2 / M / B3 / M / fill ... labels in order L1, L2, L3
    let mut items = vec![Item::Marker(0)];
    let mut pos: u32 = 0; // bytes emitted after marker 0
    let mut starts = [0u32; 3];
    for i in 0..3 {
        for kk in k[i] {
            items.push(Item::Branch(kk, format!(".L{}", i + 1)));
            pos += 2;
        }
        starts[i] = pos;
        items.push(Item::Marker(1 + i as u8));
        pos += 2;
    }
    let targets = [starts[0] + s[0], starts[1] + s[1], starts[2] + s[2]];
    if !(targets[0] <= targets[1] && targets[1] <= targets[2]) || targets[0] < pos {
        return None;
    }
    for i in 0..3 {
        let gap = targets[i] - pos;
        // each segment: fill then label then marker (marker counted in the next gap)
        items.push(Item::Fill(style, gap));
        pos += gap;
        items.push(Item::Label(format!(".L{}", i + 1)));
        if i < 2 {
            if targets[i + 1] - pos >= 2 {
                items.push(Item::Marker(4 + i as u8));
                pos += 2;
            }
        }
    }
    items.push(Item::Marker(7));
    Some(Layout { name: format!("cascade3 {:?} s={:?} style={}", k, s, style), items })
}

pub fn layouts(tier: Tier) -> Vec<Layout> {
    let mut v = Vec::new();
    for kinds in KINDS.iter() {
        for d in 116..=142u32 {
            for style in 0..6u8 {
                v.push(fwd(kinds, d, style));
                v.push(bwd(kinds, d, style));
            }
        }
    }
    for k1 in ["BMI", "BCC", "BCS", "BNE"] {
        for k2 in ["BEQ", "BNE", "BPL"] {
            if k1 == k2 {
                continue;
            }
            for d in 120..=136u32 {
                for style in [0u8, 1, 4] {
                    for second_far in [false, true] {
                        v.push(fwd_other(k1, k2, d, style, second_far));
                    }
                }
            }
        }
    }
    let ks: [&'static [&'static str]; 5] = [&["BEQ"], &["BNE"], &["BCC"], &["BMI"], &["BCC", "BEQ"]];
    let (lo, hi) = (120u32, 131u32);
    for k1 in ks.iter() {
        for k2 in ks.iter() {
            for a in [2u32, 60] {
                for s1 in lo..=hi {
                    for s2 in lo..=hi {
                        for nested in [false, true] {
                            if tier == Tier::Quick && (s1 + s2) % 3 != 0 {
                                continue;
                            }
                            if let Some(l) = cascade2(k1, k2, a, s1, s2, nested, 0) {
                                v.push(l);
                            }
                            if tier == Tier::Thorough {
                                if let Some(l) = cascade2(k1, k2, a, s1, s2, nested, 4) {
                                    v.push(l);
                                }
                            }
                        }
                    }
                }
            }
        }
    }
    // 3-branch cascades
    let k3: Vec<&'static [&'static str]> = if tier == Tier::Quick { vec![&["BNE"], &["BCC", "BEQ"]] } else { vec![&["BEQ"], &["BNE"], &["BCS"], &["BMI", "BEQ"]] };
    let range: Vec<u32> = if tier == Tier::Quick { vec![122, 125, 127, 128, 130] } else { (121..=131).collect() };
    for a in &k3 {
        for b in &k3 {
            for c in &k3 {
                for s1 in &range {
                    for s2 in &range {
                        for s3 in &range {
                            if let Some(l) = cascade3([*a, *b, *c], [*s1, *s2, *s3], 0) {
                                v.push(l);
                            }
                        }
                    }
                }
            }
        }
    }
    v
}

fn record_for(text: &str) -> Record {
    let mut r = Record::default();
    r.scheme = "4K".into();
    r.funcs.push(FuncInfo { name: "main".into(), inline: false, bank: 0, interrupt: false, has_code: true, locals: vec![], text: text.to_string(), size_bytes: 0, removed: 0, fixes: 0 });
    r
}

pub fn run_layout(l: &Layout) -> CaseOutcome {
    let ident = format!("C03.layout|{}", l.name);
    let mut o = CaseOutcome::new(ident.clone());
    let mut code = build_code(l);
    let size_before = code.size_bytes();
    let fixes = code.check_branches();
    let mut buf: Vec<u8> = Vec::new();
    code.write(&mut buf, false).expect("write");
    let text = String::from_utf8_lossy(&buf).to_string();
    if fixes > 0 {
        o.nontrivial = true;
        o.count("layouts-with-repair", 1);
        o.count(&format!("repairs={}", fixes.min(4)), 1);
    }
    let mut inl = HashMap::new();
    inl.insert("NOP".to_string(), 1u32);
    inl.insert("STA $0142".to_string(), 3u32);
    inl.insert(".byte $EA,$EA,$EA,$EA,$EA".to_string(), 5u32);
    let rec = record_for(&text);
    let img = asm65::assemble(&rec, &AsmOptions { inline_sizes: &inl, extra_symbols: &[] });
    if !img.errors.is_empty() {
        let kind = if img.errors[0].contains("out of range") { "branch-out-of-range" } else { "does-not-assemble" };
        o.fail(case_key(&ident), kind, format!("{}\n--- assembler: {}\n--- repaired text\n{}", l.name, img.errors.join(" ; "), text));
        return o;
    }
    // size bookkeeping must follow the repair
    let f = img.func("main").unwrap();
    if code.size_bytes() != f.encoded_size_declared_inline {
        o.fail(case_key(&format!("{}|size", ident)), "size-after-repair", format!("{}: size_bytes()={} (before repair {}) but assembles to {}\n{}", l.name, code.size_bytes(), size_before, f.encoded_size_declared_inline, text));
        return o;
    }
    let mut cpu = Cpu::new();
    img.load_into(&mut cpu);
    for k in 0..16u16 {
        cpu.attr[0x40 + k as usize] |= emu65::A_LOG;
    }
    let entry = f.start;
    for flags in 0..8u8 {
        let (n, z, c) = (flags & 4 != 0, flags & 2 != 0, flags & 1 != 0);
        if n && z {
            // N and Z can both be set only through PLP/BIT; still a legal processor state - explored too
        }
        let (ideal, steps) = ideal_trace(l, n, z, c);
        o.transitions += steps;
        o.states += steps + 1;
        o.evals += 1;
        let ideal = match ideal {
            Some(t) => t,
            None => {
                o.status = Status::Skipped("layout does not terminate".into());
                return o;
            }
        };
        cpu.reset_run_state();
        cpu.a = 0x55;
        cpu.n = n;
        cpu.z = z;
        cpu.c = c;
        let st = cpu.call(entry, 100_000);
        let got: Vec<u8> = cpu.log.iter().filter(|a| a.kind == emu65::AccKind::Write).map(|a| (a.addr - 0x40) as u8).collect();
        o.outcomes.push(crate::engine::hash64(&format!("{:?}", got)));
        if st != Stop::Returned || got != ideal {
            o.fail(
                case_key(&ident),
                "path-differs",
                format!("{}\n--- flags N={} Z={} C={}: ideal marker path {:?}, repaired code gives {:?} (stop {:?})\n--- repaired text\n{}", l.name, n as u8, z as u8, c as u8, ideal, got, st, text),
            );
            return o;
        }
    }
    o.sample = json!({"layout": l.name, "repairs": fixes, "text_lines": text.lines().count()});
    o
}

pub struct C03 {
    lay_q: OnceLock<Vec<Layout>>,
    lay_t: OnceLock<Vec<Layout>>,
    big_q: OnceLock<Vec<SemCase>>,
    big_t: OnceLock<Vec<SemCase>>,
}

impl C03 {
    pub fn new() -> C03 {
        C03 { lay_q: OnceLock::new(), lay_t: OnceLock::new(), big_q: OnceLock::new(), big_t: OnceLock::new() }
    }
    fn lay(&self, tier: Tier) -> &Vec<Layout> {
        match tier {
            Tier::Quick => self.lay_q.get_or_init(|| layouts(tier)),
            Tier::Thorough => self.lay_t.get_or_init(|| layouts(tier)),
        }
    }
    fn big(&self, tier: Tier) -> &Vec<SemCase> {
        match tier {
            Tier::Quick => self.big_q.get_or_init(|| gen2::f8(tier)),
            Tier::Thorough => self.big_t.get_or_init(|| gen2::f8(tier)),
        }
    }
}

impl Check for C03 {
    fn prop(&self) -> &'static str {
        "C03"
    }
    fn level(&self) -> &'static str {
        "model_checking"
    }
    fn is_state_graph(&self) -> bool {
        true
    }
    fn rule(&self) -> String {
        "Part 1: branch layouts are built through the public AssemblyCode API (append_asm/append_label/append_inline): one branch of each kind BEQ/BNE/BCC/BCS/BMI/BPL and the pairs BCC+BEQ, BMI+BEQ, forward and backward, every byte distance 116..142 with six filler styles; a far branch immediately followed by another branch to a different (near or far) label, distances 120..136; (1/2/3-byte instructions, inline asm with size hint 1, default 3 and 5); all arrangements of two overlapping or nested branches with spans 120..131 and three staggered branches (cascading repairs). After the real check_branches(), the written text is assembled with true encodings (every displacement must fit -128..127, labels unique and defined, size_bytes() must equal the assembled size) and executed on the emulator from all 8 (N,Z,C) flag states; the sequence of marker stores reached must equal the path of a label-level interpreter walking the un-repaired item list with unlimited branches. states/transitions = interpreter steps over (layout, flag state, program counter); every transition is validated against an execution of the repaired real code. Part 2: generated programs with bodies of 108..140 bytes (family F8) at -O0/-O1 under the same range check plus the C01 reference oracle. Non-trivial = check_branches repaired at least one branch.".into()
    }
    fn assumptions(&self) -> Vec<String> {
        vec!["fillers are flag-neutral (NOP, STA), so a layout's path depends only on the initial flags".into(), "inline assembly occupies exactly its declared (or default 3) size".into()]
    }
    fn n_cases(&self, tier: Tier) -> usize {
        self.lay(tier).len() + self.big(tier).len()
    }
    fn case_ident(&self, tier: Tier, idx: usize) -> String {
        let nl = self.lay(tier).len();
        if idx < nl {
            format!("C03.layout|{}", self.lay(tier)[idx].name)
        } else {
            self.big(tier)[idx - nl].ident()
        }
    }
    fn run_case(&self, tier: Tier, idx: usize) -> CaseOutcome {
        let nl = self.lay(tier).len();
        if idx < nl {
            run_layout(&self.lay(tier)[idx])
        } else {
            let case = &self.big(tier)[idx - nl];
            // range check comes from the assembler (PrepFail::AsmErrors); semantics from the reference
            let mut o = c01::run_sem_case(case, &c01::OPTS);
            // assembler errors are violations here (they are skipped by C01)
            let asm_err: Vec<String> = o.counters.iter().filter(|(k, _)| k.starts_with("asmerr:")).map(|(k, _)| k.clone()).collect();
            if !asm_err.is_empty() {
                o.fail(case_key(&format!("{}|C03asm", o.ident)), "branch-out-of-range", format!("{} tags={}\n--- source\n{}--- {}", case.family, case.tags.join(","), case.source(), asm_err.join(" ; ")));
            }
            o
        }
    }
    fn bounds(&self, tier: Tier) -> Value {
        json!({"layouts": self.lay(tier).len(), "generated_programs": self.big(tier).len(), "distances": "116..142", "cascade_spans": "120..131", "flag_states": 8})
    }
}
