//! C13 — emitted assembly always assembles; C04 — reported size equals assembled size.
//! Both piggy-back on every accepted program of the executable corpus at -O0 and -O1.

use crate::asm65::{self, AsmOptions, LineKind};
use crate::ast::collect_asm;
use crate::corpus;
use crate::drv::{self, Outcome};
use crate::engine::{case_key, hash64, CaseOutcome, Check, Status, Tier};
use crate::corpus::CaseSpec;
use crate::sem::SemCase;
use serde_json::{json, Value};
use std::collections::HashMap;
use std::sync::OnceLock;

#[derive(Clone, Copy, PartialEq)]
pub enum Which {
    C13,
    C04,
}

pub struct AsmCheck {
    which: Which,
    quick: OnceLock<Vec<CaseSpec>>,
    thorough: OnceLock<Vec<CaseSpec>>,
}

impl AsmCheck {
    pub fn new(which: Which) -> AsmCheck {
        AsmCheck { which, quick: OnceLock::new(), thorough: OnceLock::new() }
    }
    fn cases(&self, tier: Tier) -> &Vec<CaseSpec> {
        let cell = match tier {
            Tier::Quick => &self.quick,
            Tier::Thorough => &self.thorough,
        };
        cell.get_or_init(|| {
            let mut v = corpus::exec_cases(tier);
            for c in crate::gen2::f_labels() {
                v.push(CaseSpec::Full(Box::new(c)));
            }
            v
        })
    }
}

pub fn run_asm_case(which: Which, case: &SemCase) -> CaseOutcome {
    let ident = case.ident();
    let pname = if which == Which::C13 { "C13" } else { "C04" };
    let mut o = CaseOutcome::new(ident.clone());
    let src = case.source();
    let mut inl = HashMap::new();
    collect_asm(&case.prog, &mut inl);
    let mut accepted = 0;
    for opt in ["-O0", "-O1"] {
        let mut opts: Vec<&str> = vec![opt];
        for x in &case.extra_opts {
            opts.push(x.as_str());
        }
        let (out, _) = drv::compile_src(src.as_bytes(), &opts);
        let rec = match out {
            Outcome::Ok(r) => r,
            Outcome::Err(_) => continue,
            Outcome::Panic { loc, .. } => {
                o.count(&format!("compiler-panic@{}", loc), 1);
                continue;
            }
        };
        accepted += 1;
        o.evals += 1;
        let img = asm65::assemble(&rec, &AsmOptions { inline_sizes: &inl, extra_symbols: &[] });
        let errs: Vec<&String> = img.errors.iter().filter(|e| !e.starts_with("layout:")).collect();
        if img.errors.iter().any(|e| e.starts_with("layout:")) {
            o.count("layout-overflow", 1);
            continue;
        }
        if which == Which::C13 {
            if !errs.is_empty() {
                let kind = if errs[0].contains("defined twice") {
                    "duplicate-label"
                } else if errs[0].contains("undefined symbol") {
                    "undefined-symbol"
                } else if errs[0].contains("out of range") {
                    "out-of-range"
                } else {
                    "illegal-instruction"
                };
                o.fail(
                    case_key(&format!("{}|{}|{}", ident, pname, opt)),
                    kind,
                    format!("{} {} tags={}\n--- source\n{}--- assembler: {}\n--- asm\n{}", case.family, opt, case.tags.join(","), src, errs.iter().map(|s| s.as_str()).collect::<Vec<_>>().join(" ; "), rec.funcs.iter().map(|f| format!("{}:\n{}", f.name, drv::strip_text(&f.text))).collect::<String>()),
                );
            }
            for f in &img.funcs {
                for l in &f.lines {
                    if let LineKind::Instr { mnem, mode, .. } = &l.kind {
                        o.outcomes.push(hash64(&format!("{}{:?}", mnem, mode)));
                        if l.len > 1 {
                            o.nontrivial = true;
                        }
                    }
                }
            }
        } else {
            if !errs.is_empty() {
                o.count("asm-errors(C13)", 1);
                continue;
            }
            for f in &img.funcs {
                let fi = rec.funcs.iter().find(|x| x.name == f.name).unwrap();
                if fi.size_bytes != f.encoded_size_declared_inline {
                    // name the first mis-sized region by listing per-line lengths
                    let listing: String = f.lines.iter().map(|l| format!("  {} | {}\n", l.inline_declared.unwrap_or(l.len), l.text.trim())).collect();
                    o.fail(
                        case_key(&format!("{}|{}|{}|{}", ident, pname, opt, f.name)),
                        if fi.size_bytes < f.encoded_size_declared_inline { "size-under-reported" } else { "size-over-reported" },
                        format!("{} {} tags={}\n--- source\n{}--- function {}: size_bytes()={} but the emitted text assembles to {} bytes (inline asm at declared size)\n--- encoded length | line\n{}", case.family, opt, case.tags.join(","), src, f.name, fi.size_bytes, f.encoded_size_declared_inline, listing),
                    );
                }
                for l in &f.lines {
                    if let LineKind::Instr { mnem, mode, target, .. } = &l.kind {
                        let class = match target {
                            Some(t) => rec.vars.iter().find(|v| &v.name == t).map(|v| format!("{:?}", v.mem)).unwrap_or_else(|| "label".into()),
                            None => "-".into(),
                        };
                        o.outcomes.push(hash64(&format!("{}{:?}{}", mnem, mode, class)));
                        if l.len == 3 {
                            o.nontrivial = true;
                        }
                    }
                }
            }
        }
    }
    if accepted == 0 {
        o.status = Status::Rejected;
    }
    o.sample = json!({"family": case.family, "source": src, "options": ["-O0", "-O1"]});
    o
}

impl Check for AsmCheck {
    fn prop(&self) -> &'static str {
        if self.which == Which::C13 {
            "C13"
        } else {
            "C04"
        }
    }
    fn level(&self) -> &'static str {
        "exploration"
    }
    fn rule(&self) -> String {
        if self.which == Which::C13 {
            "Every accepted program of the executable corpus (families F1-F4, F7, F8 large bodies with long-branch repair, F9 memory classes, inline subsets, label stress programs) at -O0 and -O1 is parsed by an independent assembler front end with a complete documented-opcode table: each instruction must use an existing (mnemonic, addressing mode) pair under DASM's zero-page selection rule, each symbol must resolve, each label must be defined once per function, immediates/addresses must be in range. Non-trivial = program contains at least one instruction with an operand; distinct outcomes = distinct (mnemonic, mode) pairs seen.".into()
        } else {
            "Every accepted program of the executable corpus at -O0 and -O1: for each function, GeneratorState.functions_code[f].size_bytes() must equal the sum of the independently encoded lengths of the lines written by write_function(f) (inline asm counted at its declared or default size). Non-trivial = program contains a 3-byte instruction; distinct outcomes = distinct (mnemonic, mode, memory class) triples seen.".into()
        }
    }
    fn assumptions(&self) -> Vec<String> {
        vec![
            "assembler model: DASM picks the zero-page form when the operand value is < $100 and such a form exists".into(),
            "memory layout assigned by the harness: zero-page variables from $81, superchip/3E/3E+ RAM at $1000.., ROM data at $F800..".into(),
            "DPC/DPC+ display memory and 7800 schemes are outside the explored configurations".into(),
        ]
    }
    fn n_cases(&self, tier: Tier) -> usize {
        self.cases(tier).len()
    }
    fn case_ident(&self, tier: Tier, idx: usize) -> String {
        self.cases(tier)[idx].build().ident()
    }
    fn run_case(&self, tier: Tier, idx: usize) -> CaseOutcome {
        run_asm_case(self.which, &self.cases(tier)[idx].build())
    }
    fn bounds(&self, tier: Tier) -> Value {
        let fam = crate::corpus::family_counts(self.cases(tier));
        json!({"families": fam, "levels": ["-O0", "-O1"]})
    }
}
