//! C10 — compile-time constant expressions evaluate as in C.

use crate::ast::*;
use crate::drv::{self, Def, Outcome, Val};
use crate::engine::{case_key, hash64, CaseOutcome, Check, Status, Tier};
use crate::exec::{self, InitState};
use crate::gen;
use serde_json::{json, Value};
use std::collections::HashMap;
use std::sync::OnceLock;

#[derive(Clone, Copy, Debug, PartialEq, Eq)]
pub enum Pos {
    ConstShort,
    ArrayElem,
    ArraySize,
    Aligned,
    AsmSize,
    StmtAssign,
    StmtIf,
    Runtime,
    MustReject,
}

pub struct CCase {
    pub pos: Pos,
    pub e: E,
    pub text: Option<String>,
}

/// reference evaluation in unbounded integers; None = outside the unambiguous domain
/// (intermediate beyond 16-bit signed, bad shift count, division by zero)
pub fn ref_eval(e: &E) -> Option<i64> {
    let fit = |v: i64| if (-32768..=32767).contains(&v) { Some(v) } else { None };
    match e {
        E::Lit(v, _) | E::CharLit(_, v) | E::Sizeof(_, v) => fit(*v as i64),
        E::Paren(a) => ref_eval(a),
        E::Un(op, a) => {
            let v = ref_eval(a)?;
            fit(match op {
                UnOp::Neg => -v,
                UnOp::BNot => !v,
                UnOp::LNot => (v == 0) as i64,
            })
        }
        E::Bin(BinOp::LAnd, a, b) => {
            let x = ref_eval(a)?;
            let y = ref_eval(b)?;
            Some((x != 0 && y != 0) as i64)
        }
        E::Bin(BinOp::LOr, a, b) => {
            let x = ref_eval(a)?;
            let y = ref_eval(b)?;
            Some((x != 0 || y != 0) as i64)
        }
        E::Bin(op, a, b) => {
            let x = ref_eval(a)?;
            let y = ref_eval(b)?;
            fit(match op {
                BinOp::Mul => x * y,
                BinOp::Div => {
                    if y == 0 {
                        return None;
                    }
                    x / y
                }
                BinOp::Add => x + y,
                BinOp::Sub => x - y,
                BinOp::Shl => {
                    if !(0..15).contains(&y) || x < 0 {
                        return None;
                    }
                    x << y
                }
                BinOp::Shr => {
                    if !(0..15).contains(&y) || x < 0 {
                        return None;
                    }
                    x >> y
                }
                BinOp::Lt => (x < y) as i64,
                BinOp::Le => (x <= y) as i64,
                BinOp::Gt => (x > y) as i64,
                BinOp::Ge => (x >= y) as i64,
                BinOp::Eq => (x == y) as i64,
                BinOp::Ne => (x != y) as i64,
                BinOp::And => x & y,
                BinOp::Xor => x ^ y,
                BinOp::Or => x | y,
                BinOp::LAnd | BinOp::LOr => unreachable!(),
            })
        }
        E::Cond(c, a, b) => {
            let cv = ref_eval(c)?;
            let av = ref_eval(a)?;
            let bv = ref_eval(b)?;
            Some(if cv != 0 { av } else { bv })
        }
        _ => None,
    }
}

fn leaves(tier: Tier) -> Vec<E> {
    match tier {
        Tier::Quick => vec![lit(0), lit(1), lit(3), E::Lit(0x10, true), E::Lit(0xff, true), E::CharLit("A".into(), 65), lit(8)],
        Tier::Thorough => vec![lit(0), lit(1), lit(2), lit(3), lit(5), E::Lit(0x10, true), E::Lit(0x7f, true), E::Lit(0xff, true), E::CharLit("A".into(), 65), E::Sizeof("short".into(), 2), lit(8)],
    }
}

pub const OPS: [BinOp; 17] = [
    BinOp::Mul, BinOp::Div, BinOp::Add, BinOp::Sub, BinOp::Shl, BinOp::Shr, BinOp::Lt, BinOp::Le, BinOp::Gt, BinOp::Ge, BinOp::Eq, BinOp::Ne, BinOp::And, BinOp::Xor, BinOp::Or, BinOp::LAnd, BinOp::LOr,
];

fn d1(l: &[E]) -> Vec<E> {
    let mut v = Vec::new();
    for op in gen::UNOPS {
        for x in l {
            v.push(un(op, x.clone()));
        }
    }
    for op in OPS {
        for x in l {
            for y in l {
                v.push(bin(op, x.clone(), y.clone()));
            }
        }
    }
    for c in l.iter().take(3) {
        for x in l.iter().take(4) {
            for y in l.iter().take(4) {
                v.push(cond(c.clone(), x.clone(), y.clone()));
            }
        }
    }
    v
}

fn d2(l: &[E], d1: &[E], side: &[E]) -> Vec<E> {
    let mut v = Vec::new();
    for op in gen::UNOPS {
        for x in d1 {
            v.push(un(op, x.clone()));
        }
    }
    for op in OPS {
        for x in d1 {
            for y in side {
                v.push(bin(op, x.clone(), y.clone()));
                v.push(bin(op, y.clone(), x.clone()));
            }
        }
    }
    // ternaries with compound parts (incl. nested ternary in the middle operand)
    for x in d1.iter().step_by(7) {
        v.push(cond(x.clone(), l[1].clone(), l[2].clone()));
        v.push(cond(l[1].clone(), x.clone(), l[2].clone()));
        v.push(cond(l[0].clone(), l[2].clone(), x.clone()));
        v.push(cond(l[1].clone(), cond(l[0].clone(), l[2].clone(), x.clone()), l[3].clone()));
    }
    // every truth combination of a ternary nested in the middle / last operand of another one
    for outer in [0usize, 1] {
        for inner in [0usize, 1] {
            v.push(cond(l[outer].clone(), cond(l[inner].clone(), l[2].clone(), l[3].clone()), l[4 % l.len()].clone()));
            v.push(cond(l[outer].clone(), l[2].clone(), cond(l[inner].clone(), l[3].clone(), l[4 % l.len()].clone())));
            v.push(cond(cond(l[outer].clone(), l[inner].clone(), l[1 - inner].clone()), l[2].clone(), l[3].clone()));
        }
    }
    v
}

pub fn cases(tier: Tier) -> Vec<CCase> {
    let l = leaves(tier);
    let e1 = d1(&l);
    let side: Vec<E> = if tier == Tier::Quick { vec![lit(1), lit(3)] } else { vec![lit(0), lit(1), lit(3), E::Lit(0x10, true), E::Lit(0xff, true)] };
    let e2 = d2(&l, &e1, &side);
    let mut v = Vec::new();
    let ok = |e: &E| ref_eval(e).is_some();
    for e in l.iter().chain(e1.iter()).chain(e2.iter()) {
        if !ok(e) {
            continue;
        }
        v.push(CCase { pos: Pos::ConstShort, e: e.clone(), text: None });
    }
    for (k, e) in e1.iter().chain(e2.iter()).enumerate() {
        if !ok(e) {
            continue;
        }
        let val = ref_eval(e).unwrap();
        let sel = if tier == Tier::Quick { k % 5 == 0 } else { true };
        if sel {
            v.push(CCase { pos: Pos::ArrayElem, e: e.clone(), text: None });
            v.push(CCase { pos: Pos::StmtAssign, e: e.clone(), text: None });
            v.push(CCase { pos: Pos::StmtIf, e: e.clone(), text: None });
        }
        if (1..=64).contains(&val) && k % 3 == 0 {
            v.push(CCase { pos: Pos::ArraySize, e: e.clone(), text: None });
            v.push(CCase { pos: Pos::AsmSize, e: e.clone(), text: None });
        }
        if [1, 2, 4, 8, 16, 64, 256].contains(&val) && k % 3 == 0 {
            v.push(CCase { pos: Pos::Aligned, e: e.clone(), text: None });
        }
    }
    // folded versus computed at run time (8-bit operands in variables), depth 1 only
    for e in e1.iter() {
        if ok(e) && !matches!(e, E::Cond(..)) {
            v.push(CCase { pos: Pos::Runtime, e: e.clone(), text: None });
        }
    }
    // undefined cases must be rejected
    for t in [
        "1 / 0", "5 / (3 - 3)", "(1 / 0) + 1", "1 + 2 / 0", "99999999999", "0xfffffffff", "077777777777777", "1 << 40", "1 << 32", "1 >> 32", "65536 * 65536", "2147483647 + 1", "-2147483647 - 2", "3 / 0 * 0", "0 ? 1 / 0 : 2", "(-2147483647 - 1) / -1", "(-2147483647 - 1) * -1", "0x40000000 << 1", "1 << 31", "0x7fffffff << 1", "3 << 30", "(1 << 30) << 1", "0x10000 << 16",
    ] {
        v.push(CCase { pos: Pos::MustReject, e: lit(0), text: Some(t.to_string()) });
    }
    // values beyond 16 bits (the operands of a shift, a division, a comparison, a logical operator are not
    // byte-wise): same value in a constant and folded in a statement
    for (t, val) in [
        ("2147483647 > -1", 1), ("2147483647 >= -1", 1), ("-1 < 2147483647", 1), ("-2147483647 < 2147483647", 1), ("-2147483647 <= 1", 1), ("2147483647 < -1", 0), ("-1 > 2147483647", 0),
        ("(0x7fffffff >= -1) ? 2 : 3", 2), ("(1 << 9) >> 8", 2), ("(3 << 8 | 0x20) >> 8", 3), ("(1 << 10) / 8", 128), ("(1 << 8) > 0", 1), ("(1 << 12) ? 5 : 6", 5), ("!(1 << 8)", 0),
        ("(1 << 15) >> 15", 1), ("(256 * 255) >> 8", 255), ("65535 / 256", 255), ("(1 << 16) >> 16", 1), ("(1 << 30) >> 29", 2), ("0x10000 > 1", 1), ("0x10000 == 0", 0), ("!0x10000", 0),
        ("0x10000 ? 1 : 2", 1), ("0x10000 && 1", 1), ("0 || 0x10000", 1), ("(0x12345 >> 8) & 0xff", 0x23), ("0x12345 / 0x100", 0x123), ("(2 << 14) == 32768", 1), ("-32768 < 32767", 1), ("40000 > 30000", 1),
        ("2 || 0", 1), ("5 || 0", 1), ("0 || 5", 1), ("5 && 3", 1), ("(2 || 0) * 3", 3), ("!5", 0), ("!!5", 1), ("-(1 << 8) < 0", 1), ("~0 < 0", 1), ("(~0) >> 31", -1), ("1 ? 0x7eaddead : 5", 0x7eaddead), ("0 ? 5 : 0x7eaddead", 0x7eaddead),
        ("-7 / 2", -3), ("(2 - 5) / 2", -1), ("-1 / 2", 0), ("-8 / 4", -2), ("-9 / 4", -2), ("7 / -2", -3), ("-7 / -2", 3), ("-1 / 256", 0), ("-257 / 256", -1),
        ("(2 >= 2) ? 5 : 6", 5), ("(4 > 4) ? 1 : 0", 0), ("3 <= 3 && 1", 1), ("(3 < 3) || 0", 0), ("1 && 2", 1), ("(6 & 2) && (6 & 4)", 1), ("4 && 3", 1), ("8 || 0", 1),
    ] {
        for pos in [Pos::ConstShort, Pos::StmtAssign, Pos::StmtIf] {
            v.push(CCase { pos, e: E::Sizeof(format!("__TEXT__{}__DECL__", t), val), text: Some(t.to_string()) });
        }
    }
    // sizeof of objects
    for (decl, what, val) in [
        ("char c1;", "c1", 1),
        ("short s1;", "s1", 2),
        ("char a5[5];", "a5", 5),
        ("short sa3[3];", "sa3", 6),
        ("char *p1;", "p1", 2),
        ("const char t4[4] = {1, 2, 3, 4};", "t4", 4),
        ("char a5[5];", "a5[0]", 1),
        ("short sa3[3];", "sa3[1]", 2),
        ("", "char", 1),
        ("", "short", 2),
        ("", "int", 2),
        ("", "char *", 2),
        ("", "unsigned char", 1),
    ] {
        for form in ["sizeof({})", "sizeof({}) + 1", "2 * sizeof({})", "sizeof({}) == 2"] {
            let t = form.replace("{}", what);
            let v0: i64 = match form {
                "sizeof({})" => val,
                "sizeof({}) + 1" => val + 1,
                "2 * sizeof({})" => 2 * val,
                _ => (val == 2) as i64,
            };
            v.push(CCase { pos: Pos::ConstShort, e: E::Sizeof(format!("__TEXT__{}__DECL__{}", t, decl), v0 as i32), text: Some(t.clone()) });
            v.push(CCase { pos: Pos::StmtAssign, e: E::Sizeof(format!("__TEXT__{}__DECL__{}", t, decl), v0 as i32), text: Some(t) });
        }
    }
    v
}

fn expr_text(c: &CCase) -> (String, String, i64) {
    // returns (expression text, extra declarations, expected value)
    if let E::Sizeof(s, v) = &c.e {
        if let Some(rest) = s.strip_prefix("__TEXT__") {
            let mut it = rest.split("__DECL__");
            let t = it.next().unwrap().to_string();
            let d = it.next().unwrap_or("").to_string();
            return (t, d, *v as i64);
        }
    }
    (print_expr(&c.e), String::new(), ref_eval(&c.e).unwrap_or(0))
}

fn run_statement(src: &str, var: &str) -> Result<i64, String> {
    let prep = exec::compile_and_assemble(src, &["-O1"], HashMap::new()).map_err(|e| format!("{:?}", e).chars().take(200).collect::<String>())?;
    let mut m = exec::Machine::new(&prep, None);
    let (stop, _fs) = exec::run_emu(&mut m, prep.entry, &InitState::default(), 100_000);
    if stop != crate::emu65::Stop::Returned {
        return Err(format!("emulator: {:?}", stop));
    }
    let a = *prep.img.var_addr.get(var).ok_or("no var")? as usize;
    let lo = m.cpu.mem[a] as i64;
    let hi = m.cpu.mem[a + 1] as i64;
    Ok(lo | (hi << 8))
}

pub fn run(c: &CCase) -> CaseOutcome {
    let (text, decl, expect) = match (&c.pos, &c.text) {
        (Pos::MustReject, Some(t)) => (t.clone(), String::new(), 0),
        _ => expr_text(c),
    };
    let ident = format!("C10|{:?}|{}|{}", c.pos, decl, text);
    let mut o = CaseOutcome::new(ident.clone());
    o.evals = 1;
    let key = case_key(&ident);
    let fail = |o: &mut CaseOutcome, kind: &str, src: &str, what: String| {
        o.fail(key.clone(), kind, format!("{:?} `{}` (C value {})\n--- {}\n--- source\n{}", c.pos, text, expect, what, src));
    };
    match c.pos {
        Pos::MustReject => {
            for src in [format!("const short k = {};\nvoid main() {{}}\n", text), format!("short s;\nvoid main() {{ s = {}; }}\n", text), format!("char t[{}];\nvoid main() {{}}\n", text)] {
                let (out, _) = drv::compile_src(src.as_bytes(), &["-O1"]);
                match out {
                    Outcome::Err(_) => o.count("rejected-as-required", 1),
                    Outcome::Ok(_) => {
                        // `0 ? 1/0 : 2` may legitimately be accepted in C (unevaluated operand); anything else must not be
                        if text.starts_with("0 ?") {
                            o.count("accepted-unevaluated", 1);
                        } else {
                            fail(&mut o, "undefined-accepted", &src, "an undefined constant expression was accepted".into());
                        }
                    }
                    Outcome::Panic { loc, msg } => fail(&mut o, "panic", &src, format!("panic at {}: {}", loc, msg)),
                }
            }
            o.nontrivial = true;
        }
        Pos::ConstShort | Pos::ArrayElem | Pos::ArraySize | Pos::Aligned | Pos::AsmSize => {
            let src = match c.pos {
                Pos::ConstShort => format!("{}\nconst short k = {};\nvoid main() {{}}\n", decl, text),
                Pos::ArrayElem => format!("const short k[2] = {{{}, 1}};\nvoid main() {{}}\n", text),
                Pos::ArraySize => format!("char k[{}];\nvoid main() {{}}\n", text),
                Pos::Aligned => format!("aligned({}) const char k[1] = {{1}};\nvoid main() {{}}\n", text),
                _ => format!("void main() {{ asm(\"NOP\", {}); }}\n", text),
            };
            let (out, _) = drv::compile_src(src.as_bytes(), &["-O0"]);
            match out {
                Outcome::Ok(rec) => {
                    let got: Option<i64> = match c.pos {
                        Pos::AsmSize => rec.funcs.iter().find(|f| f.name == "main").map(|f| f.size_bytes as i64),
                        _ => rec.vars.iter().find(|v| v.name == "k").and_then(|v| match c.pos {
                            Pos::ConstShort => match &v.def {
                                Def::Value(Val::Int(i)) => Some(*i as i64),
                                _ => None,
                            },
                            Pos::ArrayElem => match &v.def {
                                Def::Array(a) => match a.first() {
                                    Some(Val::Int(i)) => Some(*i as i64),
                                    _ => None,
                                },
                                _ => None,
                            },
                            Pos::ArraySize => Some(v.size as i64),
                            _ => Some(v.alignment as i64),
                        }),
                    };
                    o.outcomes.push(hash64(&format!("{:?}", got)));
                    o.nontrivial = true;
                    if got != Some(expect) {
                        fail(&mut o, "wrong-constant", &src, format!("compiler computed {:?}", got));
                    }
                }
                Outcome::Err(e) => {
                    o.count(&format!("rejected: {}", e.msg.chars().take(50).collect::<String>()), 1);
                    o.status = Status::Rejected;
                }
                Outcome::Panic { loc, msg } => fail(&mut o, "panic", &src, format!("panic at {}: {}", loc, msg)),
            }
        }
        Pos::StmtAssign | Pos::StmtIf => {
            let src = if c.pos == Pos::StmtAssign { format!("{}\nshort s;\nvoid main() {{ s = {}; }}\n", decl, text) } else { format!("short s;\nvoid main() {{ if ({}) s = 1; else s = 2; }}\n", text) };
            let want = if c.pos == Pos::StmtAssign { expect & 0xffff } else if expect != 0 { 1 } else { 2 };
            match run_statement(&src, "s") {
                Ok(v) => {
                    o.nontrivial = true;
                    o.outcomes.push(hash64(&format!("{}", v)));
                    if v != want {
                        fail(&mut o, "wrong-folded-statement", &src, format!("the compiled statement stores {:#x}, C says {:#x}", v, want));
                    }
                }
                Err(e) => {
                    if e.contains("Rejected") {
                        o.status = Status::Rejected;
                        o.count(&format!("rejected: {}", e.chars().skip(9).take(60).collect::<String>()), 1);
                    } else if e.contains("Panic") {
                        fail(&mut o, "panic", &src, e);
                    } else {
                        o.status = Status::Skipped(e.chars().take(40).collect());
                    }
                }
            }
        }
        Pos::Runtime => {
            // operands moved into variables: u0 = lit0; u1 = lit1; r = u0 op u1  (8-bit), against the folded r = lit0 op lit1
            let mut lits = Vec::new();
            fn collect(e: &E, out: &mut Vec<i32>) {
                match e {
                    E::Lit(v, _) | E::CharLit(_, v) | E::Sizeof(_, v) => out.push(*v),
                    E::Un(_, a) | E::Paren(a) => collect(a, out),
                    E::Bin(_, a, b) => {
                        collect(a, out);
                        collect(b, out);
                    }
                    _ => {}
                }
            }
            collect(&c.e, &mut lits);
            let mut k = 0;
            fn subst(e: &E, k: &mut usize, shift_rhs: bool) -> E {
                match e {
                    E::Lit(..) | E::CharLit(..) | E::Sizeof(..) => {
                        if shift_rhs {
                            *k += 1;
                            e.clone()
                        } else {
                            let n = format!("u{}", *k);
                            *k += 1;
                            E::Var(n)
                        }
                    }
                    E::Un(o, a) => E::Un(*o, Box::new(subst(a, k, false))),
                    E::Paren(a) => subst(a, k, false),
                    E::Bin(o, a, b) => {
                        let l = subst(a, k, false);
                        let r = subst(b, k, matches!(o, BinOp::Shl | BinOp::Shr));
                        E::Bin(*o, Box::new(l), Box::new(r))
                    }
                    x => x.clone(),
                }
            }
            let rt = subst(&c.e, &mut k, false);
            if matches!(c.e, E::Bin(BinOp::Mul, ..) | E::Bin(BinOp::Div, ..)) {
                o.status = Status::Skipped("no run-time multiplier".into());
                return o;
            }
            let mut decls = String::new();
            let mut inits = String::new();
            for (i, v) in lits.iter().enumerate() {
                decls.push_str(&format!("unsigned char u{};\n", i));
                inits.push_str(&format!("u{} = {}; ", i, v));
            }
            let src_rt = format!("{}unsigned char r; short s;\nvoid main() {{ {} r = {}; s = r; }}\n", decls, inits, print_expr(&rt));
            let src_fold = format!("unsigned char r; short s;\nvoid main() {{ r = {}; s = r; }}\n", text);
            match (run_statement(&src_fold, "s"), run_statement(&src_rt, "s")) {
                (Ok(f), Ok(r)) => {
                    o.nontrivial = true;
                    o.outcomes.push(hash64(&format!("{}", f)));
                    if f != r {
                        fail(&mut o, "folded-differs-from-runtime", &src_rt, format!("folded statement gives {:#x}, the same expression on variables gives {:#x}\n--- folded source\n{}", f, r, src_fold));
                    }
                }
                (a, b) => {
                    o.status = Status::Skipped("one side not executable".into());
                    o.count(&format!("runtime-skip: {}", format!("{:?}/{:?}", a.is_ok(), b.is_ok())), 1);
                }
            }
        }
    }
    o.sample = json!({"position": format!("{:?}", c.pos), "expression": text, "c_value": expect});
    o
}

pub struct C10 {
    q: OnceLock<Vec<CCase>>,
    t: OnceLock<Vec<CCase>>,
}

impl C10 {
    pub fn new() -> C10 {
        C10 { q: OnceLock::new(), t: OnceLock::new() }
    }
    fn cs(&self, tier: Tier) -> &Vec<CCase> {
        match tier {
            Tier::Quick => self.q.get_or_init(|| cases(tier)),
            Tier::Thorough => self.t.get_or_init(|| cases(tier)),
        }
    }
}

impl Check for C10 {
    fn prop(&self) -> &'static str {
        "C10"
    }
    fn level(&self) -> &'static str {
        "exploration"
    }
    fn rule(&self) -> String {
        "All constant expression trees to depth 2 (one compound operand; plus ternaries with compound parts and a nested ternary in the middle operand) over literals spelled decimal/hex/character/sizeof, unary - ! ~, the 17 binary operators and ?:, printed with the minimum parentheses C requires, restricted to expressions whose every intermediate fits 16-bit signed (no width ambiguity) - in each constant position: const initialiser, array element, array size, aligned(), asm size hint, and as folded immediates in 's = E;' and 'if (E)' (executed on the emulator). Oracle: reference evaluation in unbounded integers with C precedence; plus folded-versus-run-time differential for depth-1 expressions with operands moved into variables; plus a family of undefined expressions (division by zero, literals/products/shifts beyond 32 bits) that must be rejected with Err. Non-trivial = accepted and evaluated; distinct outcomes = distinct values.".into()
    }
    fn assumptions(&self) -> Vec<String> {
        vec!["int is 16 bits; >> and << only on non-negative left operands with counts 0..14 (no implementation-defined cases)".into(), "sizeof(short)=sizeof(int)=2, sizeof(pointer)=2".into()]
    }
    fn n_cases(&self, tier: Tier) -> usize {
        self.cs(tier).len()
    }
    fn case_ident(&self, tier: Tier, idx: usize) -> String {
        let c = &self.cs(tier)[idx];
        format!("C10|{:?}|{}", c.pos, c.text.clone().unwrap_or_else(|| print_expr(&c.e)))
    }
    fn run_case(&self, tier: Tier, idx: usize) -> CaseOutcome {
        run(&self.cs(tier)[idx])
    }
    fn bounds(&self, tier: Tier) -> Value {
        let mut m = std::collections::BTreeMap::new();
        for c in self.cs(tier) {
            *m.entry(format!("{:?}", c.pos)).or_insert(0u64) += 1;
        }
        json!({"positions": m, "leaves": leaves(tier).iter().map(print_expr).collect::<Vec<_>>(), "depth": 2})
    }
}
