//! Compiler driver: runs the real cc6502 `compile()` with our own builder callback that
//! mirrors the generation loop of src/tests/build.rs and captures a compilation record.

use cc6502::assemble::AssemblyCode;
use cc6502::compile::{
    compile, CompilerState, VariableDefinition, VariableMemory, VariableType, VariableValue,
};
use cc6502::error::Error;
use cc6502::generate::GeneratorState;
use cc6502::Args;
use clap::Parser;
use std::cell::RefCell;
use std::collections::{BTreeMap, BTreeSet};
use std::io::Write;
use std::panic;

#[derive(Debug, Clone, Copy, PartialEq, Eq, Hash)]
pub enum VT {
    Char,
    Short,
    CharPtr,
    CharPtrPtr,
    ShortPtr,
}

#[derive(Debug, Clone, Copy, PartialEq, Eq, Hash)]
pub enum Mem {
    Rom(u32),
    Zp,
    Superchip,
    Display,
    Frequency,
    Ramchip,
    Ramplus,
    OnChip(u32),
    Dummy,
}

#[derive(Debug, Clone, PartialEq, Eq, Hash)]
pub enum Val {
    Int(i32),
    Low(String, i32),
    Hi(String, i32),
}

#[derive(Debug, Clone, PartialEq, Eq, Hash)]
pub enum Def {
    None,
    Value(Val),
    Array(Vec<Val>),
    ArrayOfPointers(Vec<(String, i32)>),
}

#[derive(Debug, Clone, PartialEq, Eq, Hash)]
pub struct VarInfo {
    pub name: String,
    pub vtype: VT,
    pub is_const: bool,
    pub signed: bool,
    pub mem: Mem,
    pub size: usize,
    pub alignment: usize,
    pub def: Def,
    pub global: bool,
}

#[derive(Debug, Clone, PartialEq, Eq, Hash)]
pub struct FuncInfo {
    pub name: String,
    pub inline: bool,
    pub bank: u32,
    pub interrupt: bool,
    pub has_code: bool,
    pub locals: Vec<String>,
    pub text: String,
    pub size_bytes: u32,
    pub removed: u32,
    pub fixes: u32,
}

#[derive(Debug, Clone, Default, PartialEq, Eq)]
pub struct Record {
    pub vars: Vec<VarInfo>,
    pub funcs: Vec<FuncInfo>,
    pub call_tree: BTreeMap<String, Vec<String>>,
    pub in_use: BTreeSet<String>,
    pub preprocessed: String,
    pub mapped_lines: Vec<(String, u32, Option<(String, u32)>)>,
    pub macros: BTreeMap<String, String>,
    pub scheme: String,
    pub included_asm: Vec<String>,
}

#[derive(Debug, Clone, PartialEq, Eq)]
pub struct ErrInfo {
    pub kind: String, // Syntax | Compiler | Io | Unimplemented | Configuration
    pub filename: String,
    pub line: u32,
    pub included_in: Option<(String, u32)>,
    pub msg: String,
}

#[derive(Debug, Clone, PartialEq, Eq)]
pub enum Outcome {
    Ok(Box<Record>),
    Err(ErrInfo),
    Panic { loc: String, msg: String },
}

impl Outcome {
    pub fn tag(&self) -> &'static str {
        match self {
            Outcome::Ok(_) => "ok",
            Outcome::Err(_) => "err",
            Outcome::Panic { .. } => "panic",
        }
    }
    pub fn ok(&self) -> Option<&Record> {
        if let Outcome::Ok(r) = self {
            Some(r)
        } else {
            None
        }
    }
}

pub struct Traces {
    pub cpp: Vec<(String, u32, u8, Vec<u8>)>,
    pub lit: Vec<Vec<String>>,
}

thread_local! {
    static RECORD: RefCell<Option<Record>> = RefCell::new(None);
    static FBUF: RefCell<Vec<u8>> = RefCell::new(Vec::new());
    static PROBE_MACROS: RefCell<Vec<String>> = RefCell::new(Vec::new());
    static LAST_PANIC: RefCell<Option<(String, String)>> = RefCell::new(None);
}

struct TlWriter;
impl Write for TlWriter {
    fn write(&mut self, buf: &[u8]) -> std::io::Result<usize> {
        FBUF.with(|b| b.borrow_mut().extend_from_slice(buf));
        Ok(buf.len())
    }
    fn flush(&mut self) -> std::io::Result<()> {
        Ok(())
    }
}

fn conv_val(v: &VariableValue) -> Val {
    match v {
        VariableValue::Int(i) => Val::Int(*i),
        VariableValue::LowPtr((s, o)) => Val::Low(s.clone(), *o),
        VariableValue::HiPtr((s, o)) => Val::Hi(s.clone(), *o),
    }
}

fn builder(cs: &CompilerState, _out: &mut dyn Write, args: &Args) -> Result<(), Error> {
    let mut rec = Record::default();
    let scheme: &'static str = if cs.context.get_macro("__3E__").is_some() {
        "3E"
    } else if cs.context.get_macro("__3E_PLUS__").is_some() {
        "3EP"
    } else {
        "4K"
    };
    rec.scheme = scheme.to_string();
    for (name, v) in cs.sorted_variables().iter() {
        rec.vars.push(VarInfo {
            name: (*name).clone(),
            vtype: match v.var_type {
                VariableType::Char => VT::Char,
                VariableType::Short => VT::Short,
                VariableType::CharPtr => VT::CharPtr,
                VariableType::CharPtrPtr => VT::CharPtrPtr,
                VariableType::ShortPtr => VT::ShortPtr,
            },
            is_const: v.var_const,
            signed: v.signed,
            mem: match v.memory {
                VariableMemory::ROM(b) => Mem::Rom(b),
                VariableMemory::Zeropage => Mem::Zp,
                VariableMemory::Superchip => Mem::Superchip,
                VariableMemory::Display => Mem::Display,
                VariableMemory::Frequency => Mem::Frequency,
                VariableMemory::Ramchip => Mem::Ramchip,
                VariableMemory::Ramplus => Mem::Ramplus,
                VariableMemory::MemoryOnChip(b) => Mem::OnChip(b),
                VariableMemory::Dummy => Mem::Dummy,
            },
            size: v.size,
            alignment: v.alignment,
            def: match &v.def {
                VariableDefinition::None => Def::None,
                VariableDefinition::Value(x) => Def::Value(conv_val(x)),
                VariableDefinition::Array(a) => Def::Array(a.iter().map(conv_val).collect()),
                VariableDefinition::ArrayOfPointers(a) => Def::ArrayOfPointers(a.clone()),
            },
            global: v.global,
        });
    }
    rec.preprocessed = cs.preprocessed_utf8.to_string();
    rec.mapped_lines = cs
        .mapped_lines
        .iter()
        .map(|(f, l, inc)| {
            (
                f.to_string(),
                *l,
                inc.as_ref().map(|(a, b)| (a.to_string(), *b)),
            )
        })
        .collect();
    PROBE_MACROS.with(|p| {
        for m in p.borrow().iter() {
            if let Some(v) = cs.context.get_macro(m.as_str()) {
                rec.macros.insert(m.clone(), v.clone());
            }
        }
    });
    for a in &cs.included_assembler {
        rec.included_asm.push(a.0.clone());
    }

    let mut w = TlWriter;
    FBUF.with(|b| b.borrow_mut().clear());
    let mut gstate = GeneratorState::new(
        cs,
        &mut w,
        args.insert_code,
        args.warnings.clone(),
        scheme,
    );
    let funcs = cs.sorted_functions();
    let mut meta: Vec<(String, u32, u32)> = Vec::new();
    for f in funcs.iter() {
        if f.1.code.is_some() {
            gstate.current_bank = f.1.bank;
            gstate.local_label_counter_for = 0;
            gstate.local_label_counter_if = 0;
            gstate
                .functions_code
                .insert(f.0.clone(), AssemblyCode::new());
            gstate.current_function = Some(f.0.clone());
            gstate.generate_statement(f.1.code.as_ref().unwrap())?;
            gstate.current_function = None;
            let mut removed = 0;
            if args.optimization_level > 0 {
                removed = gstate.optimize_function(f.0);
            }
            let fixes = gstate.check_branches(f.0);
            meta.push((f.0.clone(), removed, fixes));
        }
    }
    gstate.compute_functions_actually_in_use()?;
    for f in funcs.iter() {
        let mut fi = FuncInfo {
            name: f.0.clone(),
            inline: f.1.inline,
            bank: f.1.bank,
            interrupt: f.1.interrupt,
            has_code: f.1.code.is_some(),
            locals: f.1.local_variables.clone(),
            text: String::new(),
            size_bytes: 0,
            removed: 0,
            fixes: 0,
        };
        if fi.has_code {
            FBUF.with(|b| b.borrow_mut().clear());
            gstate.write_function(f.0)?;
            fi.text = FBUF.with(|b| String::from_utf8_lossy(&b.borrow()).to_string());
            fi.size_bytes = gstate.functions_code.get(f.0).unwrap().size_bytes();
            if let Some(m) = meta.iter().find(|m| &m.0 == f.0) {
                fi.removed = m.1;
                fi.fixes = m.2;
            }
        }
        rec.funcs.push(fi);
    }
    for (k, v) in gstate.functions_call_tree.iter() {
        rec.call_tree.insert(k.clone(), v.clone());
    }
    for k in gstate.functions_actually_in_use.iter() {
        rec.in_use.insert(k.clone());
    }
    RECORD.with(|r| *r.borrow_mut() = Some(rec));
    Ok(())
}

pub fn install_panic_hook() {
    panic::set_hook(Box::new(|info| {
        let loc = info
            .location()
            .map(|l| format!("{}:{}", l.file(), l.line()))
            .unwrap_or_else(|| "?".into());
        let msg = if let Some(s) = info.payload().downcast_ref::<&str>() {
            s.to_string()
        } else if let Some(s) = info.payload().downcast_ref::<String>() {
            s.clone()
        } else {
            "?".to_string()
        };
        // innermost cc6502 frame: stable across line shifts, unlike file:line
        let bt = std::backtrace::Backtrace::force_capture().to_string();
        let mut func = String::from("?");
        for l in bt.lines() {
            let t = l.trim();
            if let Some(i) = t.find("cc6502::") {
                let mut f = t[i..].to_string();
                if let Some(k) = f.find("::h") {
                    if f[k + 3..].chars().all(|c| c.is_ascii_hexdigit()) {
                        f.truncate(k);
                    }
                }
                // drop closure / generic noise
                let f = f.replace("::{{closure}}", "").replace("<impl ", "").replace(">", "");
                if !f.contains("verif_hooks") {
                    func = f;
                    break;
                }
            }
        }
        if func == "?" {
            // not inside the compiler: a bug of the harness itself, never a verdict
            eprintln!("MACHINERY-ERROR: harness panic at {}: {}", loc, msg);
        }
        LAST_PANIC.with(|p| *p.borrow_mut() = Some((format!("{} in {}", loc, func), msg)));
    }));
}

fn conv_err(e: Error) -> ErrInfo {
    match e {
        Error::Io(e) => ErrInfo {
            kind: "Io".into(),
            filename: String::new(),
            line: 0,
            included_in: None,
            msg: e.to_string(),
        },
        Error::Syntax {
            filename,
            included_in,
            line,
            msg,
        } => ErrInfo {
            kind: "Syntax".into(),
            filename,
            line,
            included_in,
            msg,
        },
        Error::Compiler {
            filename,
            included_in,
            line,
            msg,
        } => ErrInfo {
            kind: "Compiler".into(),
            filename,
            line,
            included_in,
            msg,
        },
        Error::Unimplemented { feature } => ErrInfo {
            kind: "Unimplemented".into(),
            filename: String::new(),
            line: 0,
            included_in: None,
            msg: feature.to_string(),
        },
        Error::Configuration { error } => ErrInfo {
            kind: "Configuration".into(),
            filename: String::new(),
            line: 0,
            included_in: None,
            msg: error,
        },
    }
}

/// Compile `src` (file name `in.c` in diagnostics) with the given extra command-line options.
pub fn compile_src(src: &[u8], opts: &[&str]) -> (Outcome, Traces) {
    compile_src_probe(src, opts, &[])
}

pub fn compile_src_probe(src: &[u8], opts: &[&str], probe: &[&str]) -> (Outcome, Traces) {
    let mut argv: Vec<String> = vec!["cc6502".into(), "in.c".into()];
    for o in opts {
        argv.push(o.to_string());
    }
    let args = match Args::try_parse_from(argv.iter()) {
        Ok(a) => a,
        Err(e) => {
            return (
                Outcome::Err(ErrInfo {
                    kind: "Args".into(),
                    filename: String::new(),
                    line: 0,
                    included_in: None,
                    msg: e.to_string(),
                }),
                Traces {
                    cpp: vec![],
                    lit: vec![],
                },
            )
        }
    };
    PROBE_MACROS.with(|p| *p.borrow_mut() = probe.iter().map(|s| s.to_string()).collect());
    RECORD.with(|r| *r.borrow_mut() = None);
    LAST_PANIC.with(|p| *p.borrow_mut() = None);
    let _ = cc6502::verif_hooks::take_cpp_trace();
    let _ = cc6502::verif_hooks::take_literal_orders();
    let res = panic::catch_unwind(panic::AssertUnwindSafe(|| {
        let mut out: Vec<u8> = Vec::new();
        compile(src, &mut out, &args, builder)
    }));
    let traces = Traces {
        cpp: cc6502::verif_hooks::take_cpp_trace(),
        lit: cc6502::verif_hooks::take_literal_orders(),
    };
    let outcome = match res {
        Ok(Ok(())) => match RECORD.with(|r| r.borrow_mut().take()) {
            Some(r) => Outcome::Ok(Box::new(r)),
            None => Outcome::Panic {
                loc: "harness".into(),
                msg: "builder did not run".into(),
            },
        },
        Ok(Err(e)) => Outcome::Err(conv_err(e)),
        Err(_) => {
            let (loc, msg) = LAST_PANIC
                .with(|p| p.borrow_mut().take())
                .unwrap_or(("?".into(), "?".into()));
            Outcome::Panic { loc, msg }
        }
    };
    (outcome, traces)
}

/// Strip comment lines and cycle annotations: instruction text only.
pub fn strip_text(text: &str) -> String {
    let mut s = String::new();
    for l in text.lines() {
        if l.starts_with(';') {
            continue;
        }
        let l2 = match l.find("\t;") {
            Some(i) => &l[..i],
            None => l,
        };
        s.push_str(l2.trim_end());
        s.push('\n');
    }
    s
}
