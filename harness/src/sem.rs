//! Shared machinery of the executing ("semantic") checks: a case is a program AST plus its
//! enumerated input domain; it is compiled, assembled, executed on the emulator for every
//! input state and compared with the reference interpreter or with another compilation.

use crate::ast::*;
use crate::cref::{self, Abort, Dialect};
use crate::emu65::Stop;
use crate::exec::{self, FinalState, InitState, InputVar, Machine, PrepFail, Prepared, RefMachine, V16, V8};
use std::collections::{BTreeMap, BTreeSet, HashMap};

#[derive(Clone, Debug)]
pub struct SemCase {
    pub family: String,
    pub prog: Program,
    pub inputs: Vec<InputVar>,
    pub extra_opts: Vec<String>,
    /// names of ConstAddr declarations whose accesses are logged (hardware registers)
    pub logged: Vec<String>,
    /// syntactic feature tags in priority order (documentation / harvest classification only)
    pub tags: Vec<&'static str>,
}

impl SemCase {
    pub fn source(&self) -> String {
        print_program(&self.prog)
    }
    pub fn ident(&self) -> String {
        format!("{}|{}|{}", self.family, self.extra_opts.join(" "), self.source())
    }
    pub fn signed_char(&self) -> bool {
        self.extra_opts.iter().any(|o| o == "--fsigned_char")
    }
}

pub struct RunSet {
    pub inits: Vec<InitState>,
    pub results: Vec<(Stop, FinalState)>,
}

pub fn prepare(case: &SemCase, opt: &str) -> Result<Prepared, PrepFail> {
    let src = case.source();
    let mut opts: Vec<&str> = vec![opt];
    for o in &case.extra_opts {
        opts.push(o.as_str());
    }
    let mut inl = HashMap::new();
    collect_asm(&case.prog, &mut inl);
    exec::compile_and_assemble(&src, &opts, inl)
}

pub fn logged_addrs(case: &SemCase) -> Vec<u16> {
    let mut v = Vec::new();
    for d in &case.prog.globals {
        if let DeclKind::ConstAddr(a) = &d.kind {
            if case.logged.iter().any(|n| *n == d.name) {
                v.push(*a as u16);
            }
        }
    }
    v
}

pub fn machine_for(case: &SemCase, prep: &Prepared) -> Machine {
    let mut m = Machine::new(prep, Some(&case.prog));
    let la = logged_addrs(case);
    // ConstAddr objects are legitimate RAM / registers
    for d in &case.prog.globals {
        if let DeclKind::ConstAddr(a) = &d.kind {
            m.cpu.attr[*a as usize] &= !crate::emu65::A_ROM;
        }
    }
    m.set_logged(&la);
    m
}

pub fn run_emu_all(case: &SemCase, prep: &Prepared, budget: u64) -> Result<RunSet, String> {
    let inits = exec::enumerate_inputs(prep, &case.inputs)?;
    let mut m = machine_for(case, prep);
    let mut results = Vec::with_capacity(inits.len());
    for init in &inits {
        results.push(exec::run_emu(&mut m, prep.entry, init, budget));
    }
    Ok(RunSet { inits, results })
}

pub struct RefVerdict {
    /// names of the admissible reference variants that agree with the emulator on every input
    pub agreeing: Vec<&'static str>,
    pub dialects_differ: bool,
    pub first_diff: Option<String>,
    pub aborted: Option<Abort>,
    pub ref_states: BTreeSet<u64>,
    pub events_iso: Vec<Vec<cref::Event>>,
    pub calls: BTreeSet<(String, String)>,
}

impl RefVerdict {
    pub fn agrees(&self) -> bool {
        !self.agreeing.is_empty()
    }
}

pub fn fmt_init(i: &InitState) -> String {
    let mut s = i.desc.iter().map(|(n, v)| format!("{}={:#x}", n, v)).collect::<Vec<_>>().join(" ");
    if i.entry != 0 {
        s.push_str(&format!(" (entry: C={} Z={} N={} V={} A={:#x} cctmp={:#x})", i.entry & 1, (i.entry >> 1) & 1, (i.entry >> 2) & 1, (i.entry >> 3) & 1, exec::ENTRY_A[(i.entry as usize >> 1) % 4], exec::ENTRY_TMP[i.entry as usize % 3]));
    }
    s
}

fn prog_has_shr(p: &Program) -> bool {
    format!("{:?}", p).contains("Shr")
}

pub fn compare_with_ref(case: &SemCase, prep: &Prepared, rs: &RunSet) -> Result<RefVerdict, String> {
    let binding = cref::bind(&case.prog, &prep.rec, &prep.img)?;
    let m = machine_for(case, prep);
    let mut rm = RefMachine::new(&m);
    let mut variants: Vec<(&'static str, Dialect, bool)> = vec![("ISO", Dialect::Iso, false), ("W8", Dialect::W8, false)];
    if prog_has_shr(&case.prog) {
        variants.push(("ISO/lsr", Dialect::Iso, true));
        variants.push(("W8/lsr", Dialect::W8, true));
    }
    let mut v = RefVerdict {
        agreeing: Vec::new(),
        dialects_differ: false,
        first_diff: None,
        aborted: None,
        ref_states: BTreeSet::new(),
        events_iso: Vec::new(),
        calls: BTreeSet::new(),
    };
    let sc = case.signed_char();
    let mut agree = vec![true; variants.len()];
    let mut first: Vec<Option<String>> = vec![None; variants.len()];
    for (k, init) in rs.inits.iter().enumerate() {
        let (stop, emu) = &rs.results[k];
        let halted = *stop == Stop::Returned;
        let mut first_state: Option<FinalState> = None;
        for (vi, (_name, dial, lsr)) in variants.iter().enumerate() {
            let r = match rm.run(&case.prog, &binding, *dial, init, sc, *lsr) {
                Ok(x) => x,
                Err(a) => {
                    v.aborted = Some(a);
                    return Ok(v);
                }
            };
            if vi == 0 {
                for c in &r.2 {
                    v.calls.insert(c.clone());
                }
                v.ref_states.insert(exec::hash_state(&r.0));
                v.events_iso.push(r.1.clone());
            }
            match &first_state {
                None => first_state = Some(r.0.clone()),
                Some(f) => {
                    if !exec::states_equal_ignoring_hw(f, &r.0) {
                        v.dialects_differ = true;
                    }
                }
            }
            let ok = halted && exec::states_equal_ignoring_hw(emu, &r.0);
            if !ok {
                agree[vi] = false;
                if first[vi].is_none() {
                    first[vi] = Some(if halted {
                        format!("input [{}]: {}", fmt_init(init), exec::describe_diff(prep, emu, &r.0))
                    } else {
                        format!("input [{}]: emulator stopped with {:?}", fmt_init(init), stop)
                    });
                }
            }
        }
    }
    for (vi, (name, _, _)) in variants.iter().enumerate() {
        if agree[vi] {
            v.agreeing.push(name);
        }
    }
    if v.agreeing.is_empty() {
        v.first_diff = Some(
            variants
                .iter()
                .enumerate()
                .map(|(vi, (name, _, _))| format!("vs {}: {}", name, first[vi].clone().unwrap_or_default()))
                .collect::<Vec<_>>()
                .join(" || "),
        );
    }
    Ok(v)
}

pub fn func_texts(prep: &Prepared) -> String {
    let mut s = String::new();
    for f in &prep.rec.funcs {
        if f.has_code {
            s.push_str(&format!("{}{}:\n{}", f.name, if f.inline { " (inline)" } else { "" }, crate::drv::strip_text(&f.text)));
        }
    }
    s
}

// ---------------------------------------------------------------------------------------
// input-domain derivation

#[derive(Default)]
pub struct Uses {
    pub vars: BTreeSet<String>,
    pub subscripts: BTreeMap<String, usize>, // variable used as subscript -> min array length
    pub shift_counts: BTreeSet<String>,
}

fn arr_len(p: &Program, name: &str) -> usize {
    for d in &p.globals {
        if d.name == name {
            return match &d.kind {
                DeclKind::Array(_, n) => *n,
                DeclKind::ConstArray(_, v) => v.len(),
                DeclKind::PtrArray(v) => v.len(),
                DeclKind::Ptr => 4,
                DeclKind::ConstAddr(_) => 1,
                _ => 4,
            };
        }
    }
    4
}

fn scan_e(p: &Program, e: &E, u: &mut Uses) {
    match e {
        E::Lit(..) | E::CharLit(..) | E::Sizeof(..) => {}
        E::Var(n) => {
            u.vars.insert(n.clone());
        }
        E::Idx(a, i) => {
            u.vars.insert(a.clone());
            let len = arr_len(p, a);
            mark_sub(p, i, len, u);
            scan_e(p, i, u);
        }
        E::Deref(n) | E::AddrOf(n) => {
            u.vars.insert(n.clone());
        }
        E::Un(_, a) | E::Paren(a) => scan_e(p, a, u),
        E::Bin(_, a, b) | E::Asg(_, a, b) | E::Comma(a, b) => {
            scan_e(p, a, u);
            scan_e(p, b, u);
        }
        E::Inc { e, .. } => scan_e(p, e, u),
        E::Cond(c, a, b) => {
            scan_e(p, c, u);
            scan_e(p, a, u);
            scan_e(p, b, u);
        }
        E::Call(_, args) => {
            for a in args {
                scan_e(p, a, u);
            }
        }
    }
}

fn mark_sub(_p: &Program, i: &E, len: usize, u: &mut Uses) {
    // every variable that occurs in a subscript gets the small in-bounds domain
    fn vars_in(e: &E, out: &mut Vec<String>) {
        match e {
            E::Var(n) => out.push(n.clone()),
            E::Idx(_, i) => vars_in(i, out),
            E::Un(_, a) | E::Paren(a) => vars_in(a, out),
            E::Bin(_, a, b) | E::Asg(_, a, b) | E::Comma(a, b) => {
                vars_in(a, out);
                vars_in(b, out);
            }
            E::Inc { e, .. } => vars_in(e, out),
            E::Cond(c, a, b) => {
                vars_in(c, out);
                vars_in(a, out);
                vars_in(b, out);
            }
            _ => {}
        }
    }
    let mut v = Vec::new();
    vars_in(i, &mut v);
    for n in v {
        let e = u.subscripts.entry(n).or_insert(len);
        if len < *e {
            *e = len;
        }
    }
}

fn scan_s(p: &Program, s: &S, u: &mut Uses) {
    match s {
        S::Expr(e) | S::Load(e) | S::Store(e) => scan_e(p, e, u),
        S::If(c, a, b) => {
            scan_e(p, c, u);
            scan_s(p, a, u);
            if let Some(b) = b {
                scan_s(p, b, u);
            }
        }
        S::While(c, b) | S::DoWhile(b, c) => {
            scan_e(p, c, u);
            scan_s(p, b, u);
        }
        S::For(i, c, up, b) => {
            for x in [i, c, up].into_iter().flatten() {
                scan_e(p, x, u);
            }
            scan_s(p, b, u);
        }
        S::Switch(e, cs) => {
            scan_e(p, e, u);
            for c in cs {
                for s in &c.body {
                    scan_s(p, s, u);
                }
            }
        }
        S::Return(Some(e)) => scan_e(p, e, u),
        S::Block(v) => {
            for s in v {
                scan_s(p, s, u);
            }
        }
        S::Decl(ds) => {
            for d in ds {
                if let Some(i) = &d.init {
                    scan_e(p, i, u);
                }
            }
        }
        S::Label(_, s) => scan_s(p, s, u),
        _ => {}
    }
}

/// Input variables = global scalars and X/Y mentioned anywhere in the program.
/// Variables used inside a subscript range over the in-bounds indices.
pub fn derive_inputs(p: &Program, wide: bool) -> Vec<InputVar> {
    let mut u = Uses::default();
    for f in &p.funcs {
        for s in &f.body {
            scan_s(p, s, &mut u);
        }
    }
    let mut out = Vec::new();
    let mut push = |name: &str, bits: u32, signed: bool| {
        let _ = signed;
        let values: Vec<i32> = if let Some(len) = u.subscripts.get(name) {
            let mut v: Vec<i32> = vec![0];
            if *len > 1 {
                v.push(1);
            }
            if *len > 2 {
                v.push(*len as i32 - 1);
            }
            v
        } else if bits == 8 {
            if wide {
                (0..256).collect()
            } else {
                V8.to_vec()
            }
        } else {
            V16.to_vec()
        };
        out.push(InputVar { name: name.to_string(), values });
    };
    for d in &p.globals {
        if let DeclKind::Scalar(t) = &d.kind {
            if u.vars.contains(&d.name) {
                push(&d.name, t.bits(), t.signed());
            }
        }
    }
    if u.vars.contains("X") {
        push("X", 8, false);
    }
    if u.vars.contains("Y") {
        push("Y", 8, false);
    }
    out
}

/// Reduce the product of input domains below `max` states by thinning the largest domains.
pub fn cap_inputs(mut inputs: Vec<InputVar>, max: usize) -> Vec<InputVar> {
    loop {
        let total: usize = inputs.iter().map(|i| i.values.len()).product();
        if total <= max {
            return inputs;
        }
        // thin the largest domain: keep first, last and a middle element progressively
        let k = (0..inputs.len()).max_by_key(|k| inputs[*k].values.len()).unwrap();
        let v = &mut inputs[k].values;
        if v.len() <= 2 {
            return inputs;
        }
        let mid = v.len() / 2;
        v.remove(mid);
    }
}
