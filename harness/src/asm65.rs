//! Independent assembler front end / encoder for the DASM subset emitted by cc6502,
//! plus the memory layout used by all executing checks.

use crate::drv::{Def, Mem, Record, VarInfo, Val, VT};
use crate::emu65::{self, Mode};
use std::collections::{BTreeMap, HashMap};

pub const CCTMP: u16 = 0x80;
pub const ZP_START: u16 = 0x81;
pub const CODE_START: u16 = 0xE000;
pub const ROM_DATA_START: u16 = 0xF800;
pub const SPLIT_BASE: u16 = 0x1000;

#[derive(Debug, Clone, PartialEq, Eq)]
pub enum LineKind {
    Label(String),
    Instr { mnem: String, mode: Mode, value: i64, target: Option<String> },
    Data(Vec<u8>),
    Comment,
    Blank,
}

#[derive(Debug, Clone)]
pub struct AsmLineInfo {
    pub text: String,
    pub addr: u16,
    pub len: u32,
    pub kind: LineKind,
    pub inline_declared: Option<u32>,
}

#[derive(Debug, Clone)]
pub struct FuncImage {
    pub name: String,
    pub start: u16,
    pub end: u16, // exclusive, includes the trailing RTS
    pub lines: Vec<AsmLineInfo>,
    pub labels: HashMap<String, u16>,
    /// sum of encoded lengths of the lines written by write_function (without the appended RTS),
    /// inline lines counted at their declared size when known
    pub encoded_size_declared_inline: u32,
    pub encoded_size_true: u32,
}

#[derive(Debug, Clone, Default)]
pub struct Image {
    pub bytes: Vec<(u16, u8)>,
    pub symbols: BTreeMap<String, i64>,
    pub var_addr: BTreeMap<String, u16>,
    pub var_size: BTreeMap<String, u16>,
    pub funcs: Vec<FuncImage>,
    pub errors: Vec<String>,
    pub split_ranges: Vec<(u16, u16, u16)>, // (write base, read base, len)
    pub rom_ranges: Vec<(u16, u16)>,
    pub zp_end: u16,
}

pub fn var_bytes(v: &VarInfo) -> u16 {
    if v.size > 1 {
        let s = match v.vtype {
            VT::CharPtr => 1,
            VT::CharPtrPtr | VT::ShortPtr => 2,
            _ => 1,
        };
        (v.size * s) as u16
    } else {
        match v.vtype {
            VT::Char => 1,
            _ => 2,
        }
    }
}

#[derive(Debug, Clone, PartialEq)]
enum Tok {
    Num(i64),
    Sym(String),
    Op(char),
}

fn tokenize(s: &str) -> Result<Vec<Tok>, String> {
    let cs: Vec<char> = s.chars().collect();
    let mut i = 0;
    let mut out = Vec::new();
    while i < cs.len() {
        let c = cs[i];
        if c.is_whitespace() {
            i += 1;
        } else if c == '$' {
            let st = i + 1;
            i += 1;
            while i < cs.len() && cs[i].is_ascii_hexdigit() {
                i += 1;
            }
            let t: String = cs[st..i].iter().collect();
            out.push(Tok::Num(i64::from_str_radix(&t, 16).map_err(|e| e.to_string())?));
        } else if c == '%' {
            let st = i + 1;
            i += 1;
            while i < cs.len() && (cs[i] == '0' || cs[i] == '1') {
                i += 1;
            }
            let t: String = cs[st..i].iter().collect();
            out.push(Tok::Num(i64::from_str_radix(&t, 2).map_err(|e| e.to_string())?));
        } else if c.is_ascii_digit() {
            let st = i;
            while i < cs.len() && cs[i].is_ascii_digit() {
                i += 1;
            }
            let t: String = cs[st..i].iter().collect();
            out.push(Tok::Num(t.parse::<i64>().map_err(|e| e.to_string())?));
        } else if c.is_ascii_alphabetic() || c == '_' || c == '.' {
            let st = i;
            i += 1;
            while i < cs.len() && (cs[i].is_ascii_alphanumeric() || cs[i] == '_' || cs[i] == '.') {
                i += 1;
            }
            out.push(Tok::Sym(cs[st..i].iter().collect()));
        } else if "+-*<>(),#".contains(c) {
            out.push(Tok::Op(c));
            i += 1;
        } else {
            return Err(format!("unexpected character {:?} in operand {:?}", c, s));
        }
    }
    Ok(out)
}

struct ExprParser<'a> {
    toks: &'a [Tok],
    pos: usize,
    syms: &'a dyn Fn(&str) -> Option<i64>,
    undefined: Vec<String>,
    first_sym: Option<String>,
}

impl<'a> ExprParser<'a> {
    fn peek(&self) -> Option<&Tok> {
        self.toks.get(self.pos)
    }
    fn expr(&mut self) -> Result<i64, String> {
        let mut v = self.unary()?;
        loop {
            match self.peek() {
                Some(Tok::Op('+')) => {
                    self.pos += 1;
                    v += self.unary()?;
                }
                Some(Tok::Op('-')) => {
                    self.pos += 1;
                    v -= self.unary()?;
                }
                Some(Tok::Op('*')) => {
                    self.pos += 1;
                    v *= self.unary()?;
                }
                _ => break,
            }
        }
        Ok(v)
    }
    fn unary(&mut self) -> Result<i64, String> {
        match self.peek().cloned() {
            Some(Tok::Op('-')) => {
                self.pos += 1;
                Ok(-self.unary()?)
            }
            Some(Tok::Op('<')) => {
                self.pos += 1;
                Ok(self.unary()? & 0xFF)
            }
            Some(Tok::Op('>')) => {
                self.pos += 1;
                Ok((self.unary()? >> 8) & 0xFF)
            }
            Some(Tok::Op('(')) => {
                self.pos += 1;
                let v = self.expr()?;
                match self.peek() {
                    Some(Tok::Op(')')) => {
                        self.pos += 1;
                        Ok(v)
                    }
                    _ => Err("missing )".into()),
                }
            }
            Some(Tok::Num(n)) => {
                self.pos += 1;
                Ok(n)
            }
            Some(Tok::Sym(s)) => {
                self.pos += 1;
                if self.first_sym.is_none() {
                    self.first_sym = Some(s.clone());
                }
                match (self.syms)(&s) {
                    Some(v) => Ok(v),
                    None => {
                        self.undefined.push(s);
                        Ok(0)
                    }
                }
            }
            t => Err(format!("unexpected token {:?}", t)),
        }
    }
}

#[derive(Debug, Clone, Copy, PartialEq, Eq)]
enum Syn {
    None,
    Imm,
    Plain,
    IdxX,
    IdxY,
    IndY,
    IndX,
    Ind,
}

/// Parsed operand: syntactic class, value, undefined symbols, first symbol mentioned
struct Operand {
    syn: Syn,
    value: i64,
    undefined: Vec<String>,
    first_sym: Option<String>,
}

fn parse_operand(op: &str, syms: &dyn Fn(&str) -> Option<i64>) -> Result<Operand, String> {
    let op = op.trim();
    if op.is_empty() {
        return Ok(Operand { syn: Syn::None, value: 0, undefined: vec![], first_sym: None });
    }
    let toks = tokenize(op)?;
    let mut syn;
    let mut lo = 0usize;
    let mut hi = toks.len();
    if toks[0] == Tok::Op('#') {
        syn = Syn::Imm;
        lo = 1;
    } else {
        syn = Syn::Plain;
        // trailing ,X / ,Y
        if hi >= 2 && toks[hi - 2] == Tok::Op(',') {
            match &toks[hi - 1] {
                Tok::Sym(s) if s == "X" || s == "x" => {
                    syn = Syn::IdxX;
                    hi -= 2;
                }
                Tok::Sym(s) if s == "Y" || s == "y" => {
                    syn = Syn::IdxY;
                    hi -= 2;
                }
                _ => return Err(format!("bad index in {:?}", op)),
            }
        }
        // (expr),Y  or (expr,X) or (expr)
        if toks[lo] == Tok::Op('(') {
            // find matching paren of the first '('
            let mut depth = 0;
            let mut close = None;
            for (k, t) in toks[lo..hi].iter().enumerate() {
                if *t == Tok::Op('(') {
                    depth += 1;
                } else if *t == Tok::Op(')') {
                    depth -= 1;
                    if depth == 0 {
                        close = Some(lo + k);
                        break;
                    }
                }
            }
            if let Some(c) = close {
                if c == hi - 1 {
                    if syn == Syn::IdxY {
                        syn = Syn::IndY;
                        lo += 1;
                        hi -= 1;
                    } else if syn == Syn::Plain {
                        syn = Syn::Ind;
                        lo += 1;
                        hi -= 1;
                    }
                }
            } else if syn == Syn::IdxX {
                return Err(format!("unbalanced parentheses in {:?}", op));
            }
        }
        if syn == Syn::Ind && hi - lo >= 2 && toks[hi - 2] == Tok::Op(',') {
            if let Tok::Sym(s) = &toks[hi - 1] {
                if s == "X" || s == "x" {
                    syn = Syn::IndX;
                    hi -= 2;
                }
            }
        }
    }
    let mut p = ExprParser { toks: &toks[lo..hi], pos: 0, syms, undefined: vec![], first_sym: None };
    let v = p.expr()?;
    if p.pos != hi - lo {
        return Err(format!("trailing tokens in operand {:?}", op));
    }
    Ok(Operand { syn, value: v, undefined: p.undefined, first_sym: p.first_sym })
}

pub fn is_branch(m: &str) -> bool {
    matches!(m, "BCC" | "BCS" | "BEQ" | "BNE" | "BMI" | "BPL" | "BVC" | "BVS")
}

/// Select the addressing mode as DASM would; Err = no such instruction form.
fn select_mode(mnem: &str, syn: Syn, value: i64, force_abs: bool) -> Result<Mode, String> {
    let zp_ok = (0..0x100).contains(&value) && !force_abs;
    let pick = |zp: Mode, abs: Mode| -> Result<Mode, String> {
        if zp_ok && emu65::lookup(mnem, zp).is_some() {
            Ok(zp)
        } else if emu65::lookup(mnem, abs).is_some() {
            Ok(abs)
        } else {
            Err(format!("no {:?}/{:?} form for {}", zp, abs, mnem))
        }
    };
    match syn {
        Syn::None => {
            if emu65::lookup(mnem, Mode::Imp).is_some() {
                Ok(Mode::Imp)
            } else if emu65::lookup(mnem, Mode::Acc).is_some() {
                Ok(Mode::Acc)
            } else {
                Err(format!("{} needs an operand", mnem))
            }
        }
        Syn::Imm => {
            if emu65::lookup(mnem, Mode::Imm).is_some() {
                Ok(Mode::Imm)
            } else {
                Err(format!("no immediate form for {}", mnem))
            }
        }
        Syn::Plain => {
            if is_branch(mnem) {
                Ok(Mode::Rel)
            } else {
                pick(Mode::Zp, Mode::Abs)
            }
        }
        Syn::IdxX => pick(Mode::ZpX, Mode::AbsX),
        Syn::IdxY => pick(Mode::ZpY, Mode::AbsY),
        Syn::IndY => {
            if emu65::lookup(mnem, Mode::IndY).is_some() {
                if (0..0x100).contains(&value) {
                    Ok(Mode::IndY)
                } else {
                    Err(format!("(zp),Y with non zero-page address ${:X}", value))
                }
            } else {
                Err(format!("no (zp),Y form for {}", mnem))
            }
        }
        Syn::IndX => {
            if emu65::lookup(mnem, Mode::IndX).is_some() && (0..0x100).contains(&value) {
                Ok(Mode::IndX)
            } else {
                Err(format!("no (zp,X) form for {}", mnem))
            }
        }
        Syn::Ind => {
            if emu65::lookup(mnem, Mode::Ind).is_some() {
                Ok(Mode::Ind)
            } else {
                Err(format!("no indirect form for {}", mnem))
            }
        }
    }
}

pub struct Layout {
    pub symbols: BTreeMap<String, i64>,
    pub var_addr: BTreeMap<String, u16>,
    pub var_size: BTreeMap<String, u16>,
    pub rom_bytes: Vec<(u16, u8)>,
    pub split_ranges: Vec<(u16, u16, u16)>,
    pub rom_ranges: Vec<(u16, u16)>,
    pub errors: Vec<String>,
    pub zp_end: u16,
    pub pending_ptrs: Vec<(u16, String, i32, bool)>, // address, symbol, offset, high
}

/// Assign addresses to every variable of the record.
pub fn layout(rec: &Record) -> Layout {
    let mut l = Layout {
        symbols: BTreeMap::new(),
        var_addr: BTreeMap::new(),
        var_size: BTreeMap::new(),
        rom_bytes: Vec::new(),
        split_ranges: Vec::new(),
        rom_ranges: Vec::new(),
        errors: Vec::new(),
        zp_end: ZP_START,
        pending_ptrs: Vec::new(),
    };
    l.symbols.insert("cctmp".into(), CCTMP as i64);
    let mut zp = ZP_START;
    let mut split = SPLIT_BASE;
    let mut onchip: BTreeMap<u32, u16> = BTreeMap::new();
    let mut rom = ROM_DATA_START;
    let mut late_equ: Vec<(String, Val)> = Vec::new();
    for v in &rec.vars {
        if v.mem == Mem::Dummy {
            continue; // function names
        }
        match &v.def {
            Def::Value(Val::Int(i)) => {
                if v.is_const {
                    l.symbols.insert(v.name.clone(), *i as i64);
                    continue;
                }
            }
            Def::Value(x) => {
                if v.is_const {
                    late_equ.push((v.name.clone(), x.clone()));
                    continue;
                }
            }
            _ => {}
        }
        let nbytes = var_bytes(v);
        match (&v.def, v.mem) {
            (Def::None, Mem::Zp) => {
                if zp as u32 + nbytes as u32 > 0x100 {
                    l.errors.push(format!("layout: zero page overflow at {}", v.name));
                    continue;
                }
                l.symbols.insert(v.name.clone(), zp as i64);
                l.var_addr.insert(v.name.clone(), zp);
                l.var_size.insert(v.name.clone(), nbytes);
                zp += nbytes;
            }
            (Def::None, Mem::Superchip) => {
                if split + nbytes > SPLIT_BASE + 0x80 {
                    l.errors.push(format!("layout: superchip RAM overflow at {}", v.name));
                    continue;
                }
                l.symbols.insert(v.name.clone(), split as i64);
                l.var_addr.insert(v.name.clone(), split);
                l.var_size.insert(v.name.clone(), nbytes);
                split += nbytes;
            }
            (Def::None, Mem::OnChip(bank)) => {
                let base = match rec.scheme.as_str() {
                    "3EP" => 0x1000 + (3 - (bank & 3)) as u16 * 0x400,
                    _ => 0x1000,
                };
                let cur = onchip.entry(bank).or_insert(base);
                let limit = match rec.scheme.as_str() {
                    "3E" => 0x400,
                    "3EP" => 0x200,
                    _ => 0x400,
                };
                if *cur + nbytes > base + limit {
                    l.errors.push(format!("layout: on-chip RAM overflow at {}", v.name));
                    continue;
                }
                l.symbols.insert(v.name.clone(), *cur as i64);
                l.var_addr.insert(v.name.clone(), *cur);
                l.var_size.insert(v.name.clone(), nbytes);
                *cur += nbytes;
            }
            (Def::None, m) => {
                l.errors.push(format!("layout: unsupported memory class {:?} for {}", m, v.name));
            }
            (Def::Array(a), _) => {
                let al = v.alignment.max(1) as u16;
                if rom % al != 0 {
                    rom += al - rom % al;
                }
                l.symbols.insert(v.name.clone(), rom as i64);
                l.var_addr.insert(v.name.clone(), rom);
                let start = rom;
                for x in a {
                    match x {
                        Val::Int(i) => l.rom_bytes.push((rom, (*i & 0xff) as u8)),
                        Val::Low(s, o) => l.pending_ptrs.push((rom, s.clone(), *o, false)),
                        Val::Hi(s, o) => l.pending_ptrs.push((rom, s.clone(), *o, true)),
                    }
                    rom += 1;
                }
                if v.vtype == VT::ShortPtr {
                    for x in a {
                        if let Val::Int(i) = x {
                            l.rom_bytes.push((rom, ((*i >> 8) & 0xff) as u8));
                        }
                        rom += 1;
                    }
                }
                l.var_size.insert(v.name.clone(), rom - start);
            }
            (Def::ArrayOfPointers(a), _) => {
                let al = v.alignment.max(1) as u16;
                if rom % al != 0 {
                    rom += al - rom % al;
                }
                l.symbols.insert(v.name.clone(), rom as i64);
                l.var_addr.insert(v.name.clone(), rom);
                let start = rom;
                for (s, o) in a {
                    l.pending_ptrs.push((rom, s.clone(), *o, false));
                    rom += 1;
                }
                for (s, o) in a {
                    l.pending_ptrs.push((rom, s.clone(), *o, true));
                    rom += 1;
                }
                l.var_size.insert(v.name.clone(), rom - start);
            }
            (Def::Value(_), _) => {
                l.errors.push(format!("layout: non-const variable {} with a value", v.name));
            }
        }
    }
    l.zp_end = zp;
    // split-port ranges
    if split > SPLIT_BASE {
        l.split_ranges.push((SPLIT_BASE, SPLIT_BASE + 0x80, 0x80));
    }
    for (bank, _) in onchip.iter() {
        match rec.scheme.as_str() {
            "3E" => {
                if !l.split_ranges.iter().any(|r| r.1 == 0x1000) {
                    l.split_ranges.push((0x1400, 0x1000, 0x400));
                }
            }
            "3EP" => {
                let base = 0x1000 + (3 - (bank & 3)) as u16 * 0x400;
                if !l.split_ranges.iter().any(|r| r.1 == base) {
                    l.split_ranges.push((base + 0x200, base, 0x200));
                }
            }
            _ => {}
        }
    }
    if rom > ROM_DATA_START {
        l.rom_ranges.push((ROM_DATA_START, rom));
    }
    // late EQUs (pointers to other symbols)
    for (name, val) in late_equ {
        let (s, o, hi) = match &val {
            Val::Low(s, o) => (s, *o, false),
            Val::Hi(s, o) => (s, *o, true),
            Val::Int(_) => unreachable!(),
        };
        match l.symbols.get(s) {
            Some(base) => {
                let a = base + o as i64;
                l.symbols.insert(name, if hi { (a >> 8) & 0xff } else { a & 0xff });
            }
            None => l.errors.push(format!("layout: EQU {} refers to undefined {}", name, s)),
        }
    }
    l
}

/// In split-port RAM the variable's symbol is the base the generator adds its offsets to.
/// For superchip: symbol = write port, reads at +$80. For 3E: symbol = read port, writes +$400.
/// `cell_addr` gives the address where the harness finds the storage cell of a variable byte.
pub fn cell_addr(rec: &Record, v: &VarInfo, sym_addr: u16) -> u16 {
    match v.mem {
        Mem::OnChip(_) => match rec.scheme.as_str() {
            "3E" => sym_addr + 0x400,
            "3EP" => sym_addr + 0x200,
            _ => sym_addr,
        },
        _ => sym_addr,
    }
}

pub struct AsmOptions<'a> {
    /// inline-assembly strings of the source with their declared sizes (None = default 3)
    pub inline_sizes: &'a HashMap<String, u32>,
    /// extra symbols (e.g. labels of included assembler)
    pub extra_symbols: &'a [(String, i64)],
}

fn split_line(line: &str) -> (Option<String>, Option<(String, String)>) {
    // returns (label, (mnemonic, operand))
    let code = match line.find(';') {
        Some(i) => &line[..i],
        None => line,
    };
    if code.trim().is_empty() {
        return (None, None);
    }
    let starts_ws = code.starts_with(' ') || code.starts_with('\t');
    let mut rest = code.trim();
    let mut label = None;
    if !starts_ws {
        let mut it = rest.splitn(2, char::is_whitespace);
        label = Some(it.next().unwrap().to_string());
        rest = it.next().unwrap_or("").trim();
    }
    if rest.is_empty() {
        return (label, None);
    }
    let mut it = rest.splitn(2, char::is_whitespace);
    let m = it.next().unwrap().to_string();
    let o = it.next().unwrap_or("").trim().to_string();
    (label, Some((m, o)))
}

fn data_directive(m: &str, o: &str, syms: &dyn Fn(&str) -> Option<i64>) -> Option<Result<Vec<u8>, String>> {
    let ml = m.to_ascii_lowercase();
    match ml.as_str() {
        ".byte" | "byte" | "dc.b" | ".dc.b" => {
            let mut out = Vec::new();
            for part in o.split(',') {
                match parse_operand(part, syms) {
                    Ok(op) => {
                        if !op.undefined.is_empty() {
                            return Some(Err(format!("undefined symbol {:?}", op.undefined)));
                        }
                        out.push((op.value & 0xff) as u8)
                    }
                    Err(e) => return Some(Err(e)),
                }
            }
            Some(Ok(out))
        }
        "hex" | ".hex" => {
            let t: String = o.chars().filter(|c| !c.is_whitespace()).collect();
            let mut out = Vec::new();
            let cs: Vec<char> = t.chars().collect();
            if cs.len() % 2 != 0 {
                return Some(Err("odd hex".into()));
            }
            for k in (0..cs.len()).step_by(2) {
                let s: String = cs[k..k + 2].iter().collect();
                match u8::from_str_radix(&s, 16) {
                    Ok(b) => out.push(b),
                    Err(e) => return Some(Err(e.to_string())),
                }
            }
            Some(Ok(out))
        }
        _ => None,
    }
}

/// Assemble all non-inline functions with code of the record.
pub fn assemble(rec: &Record, opts: &AsmOptions) -> Image {
    let lay = layout(rec);
    let mut img = Image {
        symbols: lay.symbols.clone(),
        var_addr: lay.var_addr.clone(),
        var_size: lay.var_size.clone(),
        errors: lay.errors.clone(),
        split_ranges: lay.split_ranges.clone(),
        rom_ranges: lay.rom_ranges.clone(),
        zp_end: lay.zp_end,
        ..Default::default()
    };
    for (s, v) in opts.extra_symbols {
        img.symbols.insert(s.clone(), *v);
    }
    // two passes: pass 1 assigns addresses with all global symbols known except function
    // entry points and local labels (always absolute / relative => size independent of value)
    struct PLine {
        text: String,
        label: Option<String>,
        instr: Option<(String, String)>,
    }
    let mut fun_lines: Vec<(String, Vec<PLine>)> = Vec::new();
    for f in &rec.funcs {
        if !f.has_code || f.inline {
            continue;
        }
        let mut v = Vec::new();
        for line in f.text.lines() {
            let (label, instr) = split_line(line);
            v.push(PLine { text: line.to_string(), label, instr });
        }
        v.push(PLine { text: "\tRTS".into(), label: None, instr: Some(("RTS".into(), "".into())) });
        fun_lines.push((f.name.clone(), v));
    }
    let func_names: Vec<String> = fun_lines.iter().map(|f| f.0.clone()).collect();
    // pass 1: sizes
    let mut pc = CODE_START;
    let mut func_start: HashMap<String, u16> = HashMap::new();
    let mut local_labels: HashMap<String, HashMap<String, u16>> = HashMap::new();
    let mut sizes: Vec<Vec<(u16, u32)>> = Vec::new();
    for (fname, lines) in &fun_lines {
        func_start.insert(fname.clone(), pc);
        let mut labels: HashMap<String, u16> = HashMap::new();
        let mut sz = Vec::new();
        for pl in lines {
            let addr = pc;
            let mut len = 0u32;
            if let Some(l) = &pl.label {
                if labels.contains_key(l) {
                    img.errors.push(format!("{}: label {} defined twice", fname, l));
                }
                labels.insert(l.clone(), pc);
            }
            if let Some((m, o)) = &pl.instr {
                let mu = m.to_ascii_uppercase();
                let symf = |s: &str| -> Option<i64> {
                    if let Some(v) = img.symbols.get(s) {
                        return Some(*v);
                    }
                    if s.starts_with('.') || func_names.iter().any(|f| f == s) {
                        return Some(0x8000); // any absolute placeholder
                    }
                    None
                };
                if let Some(d) = data_directive(m, o, &symf) {
                    match d {
                        Ok(b) => len = b.len() as u32,
                        Err(e) => img.errors.push(format!("{}: {:?}: {}", fname, pl.text, e)),
                    }
                } else if !emu65::has_mnemonic(&mu) {
                    img.errors.push(format!("{}: unknown mnemonic in {:?}", fname, pl.text));
                } else {
                    match parse_operand(o, &symf) {
                        Err(e) => img.errors.push(format!("{}: {:?}: {}", fname, pl.text, e)),
                        Ok(op) => {
                            let force_abs = !op.undefined.is_empty();
                            match select_mode(&mu, op.syn, op.value, force_abs) {
                                Ok(mode) => len = mode.len(),
                                Err(e) => {
                                    img.errors.push(format!("{}: {:?}: {}", fname, pl.text, e));
                                }
                            }
                        }
                    }
                }
            }
            sz.push((addr, len));
            pc = pc.wrapping_add(len as u16);
            if pc >= ROM_DATA_START || pc < CODE_START {
                img.errors.push(format!("layout: code overflow in {}", fname));
                return img;
            }
        }
        local_labels.insert(fname.clone(), labels);
        sizes.push(sz);
    }
    img.rom_ranges.push((CODE_START, pc));
    for (f, a) in &func_start {
        if img.symbols.insert(f.clone(), *a as i64).is_some() {
            img.errors.push(format!("{}: symbol defined twice (a function and a variable or table)", f));
        }
    }
    // ROM data bytes and pointers
    for (a, b) in &lay.rom_bytes {
        img.bytes.push((*a, *b));
    }
    for (a, s, o, hi) in &lay.pending_ptrs {
        let base = if s == "__address__" { Some(0) } else { img.symbols.get(s).copied() };
        match base {
            Some(b) => {
                let v = b + *o as i64;
                img.bytes.push((*a, if *hi { ((v >> 8) & 0xff) as u8 } else { (v & 0xff) as u8 }));
            }
            None => img.errors.push(format!("data: undefined symbol {} in a pointer table", s)),
        }
    }
    // pass 2: encode
    for (fi, (fname, lines)) in fun_lines.iter().enumerate() {
        let labels = &local_labels[fname];
        let mut fimg = FuncImage {
            name: fname.clone(),
            start: func_start[fname],
            end: 0,
            lines: Vec::new(),
            labels: labels.clone(),
            encoded_size_declared_inline: 0,
            encoded_size_true: 0,
        };
        let nlines = lines.len();
        for (li, pl) in lines.iter().enumerate() {
            let (addr, len) = sizes[fi][li];
            let mut kind = LineKind::Blank;
            if pl.label.is_some() && pl.instr.is_none() {
                kind = LineKind::Label(pl.label.clone().unwrap());
            } else if pl.instr.is_none() {
                kind = if pl.text.trim().is_empty() { LineKind::Blank } else { LineKind::Comment };
            }
            let mut inline_declared = None;
            if let Some((m, o)) = &pl.instr {
                let mu = m.to_ascii_uppercase();
                let symf = |s: &str| -> Option<i64> {
                    if s.starts_with('.') {
                        return labels.get(s).map(|a| *a as i64);
                    }
                    img.symbols.get(s).copied()
                };
                let key = pl.text.trim().to_string();
                if let Some(sz) = opts.inline_sizes.get(&key) {
                    inline_declared = Some(*sz);
                }
                if let Some(d) = data_directive(m, o, &symf) {
                    if let Ok(b) = d {
                        for (k, x) in b.iter().enumerate() {
                            img.bytes.push((addr + k as u16, *x));
                        }
                        kind = LineKind::Data(b);
                    }
                } else if emu65::has_mnemonic(&mu) {
                    if let Ok(op) = parse_operand(o, &symf) {
                        for u in &op.undefined {
                            img.errors.push(format!("{}: undefined symbol {} in {:?}", fname, u, pl.text));
                        }
                        if let Ok(mode) = select_mode(&mu, op.syn, op.value, false) {
                            let mode = if mode.len() != len {
                                // pass-1 placeholder forced absolute; keep pass-1 size
                                match mode {
                                    Mode::Zp => Mode::Abs,
                                    Mode::ZpX => Mode::AbsX,
                                    Mode::ZpY => Mode::AbsY,
                                    m => m,
                                }
                            } else {
                                mode
                            };
                            if let Some(info) = emu65::lookup(&mu, mode) {
                                img.bytes.push((addr, info.code));
                                let mut value = op.value;
                                if mode == Mode::Rel {
                                    let disp = op.value - (addr as i64 + 2);
                                    if !(-128..=127).contains(&disp) {
                                        img.errors.push(format!(
                                            "{}: branch out of range ({}) in {:?}",
                                            fname, disp, pl.text
                                        ));
                                    }
                                    img.bytes.push((addr + 1, (disp & 0xff) as u8));
                                    value = disp;
                                } else if mode.len() == 2 {
                                    if mode == Mode::Imm && !(-128..=255).contains(&op.value) {
                                        img.errors.push(format!(
                                            "{}: immediate out of range ({}) in {:?}",
                                            fname, op.value, pl.text
                                        ));
                                    }
                                    img.bytes.push((addr + 1, (op.value & 0xff) as u8));
                                } else if mode.len() == 3 {
                                    if !(0..=0xffff).contains(&op.value) {
                                        img.errors.push(format!(
                                            "{}: address out of range ({}) in {:?}",
                                            fname, op.value, pl.text
                                        ));
                                    }
                                    img.bytes.push((addr + 1, (op.value & 0xff) as u8));
                                    img.bytes.push((addr + 2, ((op.value >> 8) & 0xff) as u8));
                                }
                                kind = LineKind::Instr {
                                    mnem: mu.clone(),
                                    mode,
                                    value,
                                    target: op.first_sym.clone(),
                                };
                            }
                        }
                    }
                }
            }
            if li + 1 < nlines {
                fimg.encoded_size_true += len;
                fimg.encoded_size_declared_inline += inline_declared.unwrap_or(len);
            }
            fimg.lines.push(AsmLineInfo { text: pl.text.clone(), addr, len, kind, inline_declared });
        }
        fimg.end = sizes[fi].last().map(|(a, l)| a + *l as u16).unwrap_or(fimg.start);
        img.funcs.push(fimg);
    }
    img
}

impl Image {
    pub fn load_into(&self, cpu: &mut emu65::Cpu) {
        for (a, b) in &self.bytes {
            cpu.mem[*a as usize] = *b;
        }
        for (s, e) in &self.rom_ranges {
            for a in *s..*e {
                cpu.attr[a as usize] |= emu65::A_ROM;
            }
        }
        cpu.ports = self.split_ranges.clone();
        for (w, r, l) in &self.split_ranges {
            for k in 0..*l {
                cpu.attr[(*w + k) as usize] |= emu65::A_WPORT;
                cpu.attr[(*r + k) as usize] |= emu65::A_RPORT;
            }
        }
    }
    pub fn func(&self, name: &str) -> Option<&FuncImage> {
        self.funcs.iter().find(|f| f.name == name)
    }
}
