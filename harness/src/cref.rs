//! Reference interpreter for the C subset, operating on the harness's own AST and on the
//! same 64 KiB address map as the emulator. Two dialects for 8-bit intermediates (ISO / W8).

use crate::asm65::{cell_addr, Image};
use crate::ast::*;
use crate::drv::Record;
use std::collections::HashMap;

#[derive(Clone, Copy, PartialEq, Eq, Debug)]
pub enum Dialect {
    Iso,
    W8,
}

#[derive(Clone, Copy, PartialEq, Eq, Debug)]
pub enum T {
    U8,
    S8,
    I16,
    U16,
    /// W8 only: integer literal 0..=255, adopts the type of the other operand
    LitK,
}

impl T {
    fn of(t: Ty) -> T {
        match t {
            Ty::U8 => T::U8,
            Ty::S8 => T::S8,
            Ty::I16 => T::I16,
            Ty::U16 => T::U16,
        }
    }
    fn is8(self) -> bool {
        matches!(self, T::U8 | T::S8)
    }
}

#[derive(Clone, Copy, PartialEq, Eq, Debug)]
pub struct V {
    pub v: i32,
    pub t: T,
}

pub fn norm(v: i32, t: T) -> i32 {
    match t {
        T::U8 => v & 0xff,
        T::S8 => ((v & 0xff) as u8 as i8) as i32,
        T::I16 => ((v & 0xffff) as u16 as i16) as i32,
        T::U16 => v & 0xffff,
        T::LitK => ((v & 0xffff) as u16 as i16) as i32,
    }
}

#[derive(Clone, Debug, PartialEq, Eq)]
pub enum Obj {
    Scalar { ty: Ty, addr: u16 },
    RegX,
    RegY,
    Array { elem: Ty, n: usize, addr: u16, writable: bool },
    Ptr { addr: u16 },
    PtrArray { n: usize, addr: u16 },
    Const { v: i32, ty: Ty },
}

#[derive(Clone, Debug, PartialEq, Eq)]
pub enum Abort {
    Budget,
    DivZero,
    OutOfBounds(String),
    Unbound(String),
    Unsupported(String),
    NoReturnValue(String),
}

#[derive(Clone, Debug, PartialEq, Eq, Hash)]
pub enum Event {
    Load(u16),
    Store(u16),
    Strobe(u16),
    Asm(String),
    Csleep(i32),
}

enum Flow {
    Normal,
    Break,
    Continue,
    Return(Option<V>),
    Goto(String),
}

pub struct Binding {
    pub globals: HashMap<String, Obj>,
    /// per function: parameter objects in order, then local objects in declaration order
    pub fparams: HashMap<String, Vec<Obj>>,
    pub flocals: HashMap<String, Vec<Obj>>,
}

fn obj_for(d: &Decl, addr: u16) -> Obj {
    match &d.kind {
        DeclKind::Scalar(t) => Obj::Scalar { ty: *t, addr },
        DeclKind::Array(t, n) => Obj::Array { elem: *t, n: *n, addr, writable: true },
        DeclKind::ConstArray(t, v) => Obj::Array { elem: *t, n: v.len(), addr, writable: false },
        DeclKind::Ptr => Obj::Ptr { addr },
        DeclKind::PtrArray(v) => Obj::PtrArray { n: v.len(), addr },
        DeclKind::ConstAddr(a) => Obj::Array { elem: Ty::U8, n: 256, addr: *a as u16, writable: true },
        DeclKind::ConstVal(t, v) => Obj::Const { v: *v, ty: *t },
    }
}

fn collect_decls<'a>(s: &'a S, out: &mut Vec<&'a Decl>) {
    match s {
        S::Decl(ds) => {
            for d in ds {
                out.push(d);
            }
        }
        S::If(_, a, b) => {
            collect_decls(a, out);
            if let Some(b) = b {
                collect_decls(b, out);
            }
        }
        S::While(_, b) | S::DoWhile(b, _) | S::For(_, _, _, b) | S::Label(_, b) => collect_decls(b, out),
        S::Switch(_, cs) => {
            for c in cs {
                for s in &c.body {
                    collect_decls(s, out);
                }
            }
        }
        S::Block(v) => {
            for s in v {
                collect_decls(s, out);
            }
        }
        _ => {}
    }
}

/// Bind the program's objects to the addresses chosen by the layout.
pub fn bind(p: &Program, rec: &Record, img: &Image) -> Result<Binding, String> {
    let mut b = Binding { globals: HashMap::new(), fparams: HashMap::new(), flocals: HashMap::new() };
    let find = |name: &str| -> Result<u16, String> {
        let vi = rec.vars.iter().find(|v| v.name == name).ok_or_else(|| format!("no variable {} in record", name))?;
        let a = *img.var_addr.get(name).ok_or_else(|| format!("no address for {}", name))?;
        Ok(cell_addr(rec, vi, a))
    };
    for d in &p.globals {
        let o = match &d.kind {
            DeclKind::ConstAddr(_) | DeclKind::ConstVal(..) => obj_for(d, 0),
            _ => obj_for(d, find(&d.name)?),
        };
        b.globals.insert(d.name.clone(), o);
    }
    for f in &p.funcs {
        let fi = rec.funcs.iter().find(|x| x.name == f.name).ok_or_else(|| format!("no function {} in record", f.name))?;
        let mut decls = Vec::new();
        for s in &f.body {
            collect_decls(s, &mut decls);
        }
        if fi.locals.len() != f.params.len() + decls.len() {
            return Err(format!(
                "function {}: record has {} locals, source has {} params + {} locals",
                f.name,
                fi.locals.len(),
                f.params.len(),
                decls.len()
            ));
        }
        let mut ps = Vec::new();
        for (i, d) in f.params.iter().enumerate() {
            ps.push(obj_for(d, find(&fi.locals[i])?));
        }
        let mut ls = Vec::new();
        for (i, d) in decls.iter().enumerate() {
            ls.push(obj_for(d, find(&fi.locals[f.params.len() + i])?));
        }
        b.fparams.insert(f.name.clone(), ps);
        b.flocals.insert(f.name.clone(), ls);
    }
    Ok(b)
}

pub struct Interp<'a> {
    pub prog: &'a Program,
    pub bind: &'a Binding,
    pub dialect: Dialect,
    pub mem: Box<[u8; 65536]>,
    pub x: u8,
    pub y: u8,
    pub steps: u64,
    pub max_steps: u64,
    pub events: Vec<Event>,
    pub calls: Vec<(String, String)>,
    pub plain_char_signed: bool,
    /// implementation-defined choice: >> of a signed value is a logical shift of its bit pattern
    pub shr_logical: bool,
    scopes: Vec<HashMap<String, Obj>>,
    local_cursor: Vec<usize>,
    cur_func: Vec<String>,
}

type R<X> = Result<X, Abort>;

impl<'a> Interp<'a> {
    pub fn new(prog: &'a Program, bind: &'a Binding, dialect: Dialect, mem: Box<[u8; 65536]>, x: u8, y: u8) -> Interp<'a> {
        Interp {
            prog,
            bind,
            dialect,
            mem,
            x,
            y,
            steps: 0,
            max_steps: 100_000,
            events: Vec::new(),
            calls: Vec::new(),
            plain_char_signed: false,
            shr_logical: false,
            scopes: Vec::new(),
            local_cursor: Vec::new(),
            cur_func: Vec::new(),
        }
    }

    fn tick(&mut self) -> R<()> {
        self.steps += 1;
        if self.steps > self.max_steps {
            Err(Abort::Budget)
        } else {
            Ok(())
        }
    }

    fn lookup(&self, name: &str) -> R<Obj> {
        if name == "X" {
            return Ok(Obj::RegX);
        }
        if name == "Y" {
            return Ok(Obj::RegY);
        }
        for s in self.scopes.iter().rev() {
            if let Some(o) = s.get(name) {
                return Ok(o.clone());
            }
        }
        self.bind.globals.get(name).cloned().ok_or_else(|| Abort::Unbound(name.to_string()))
    }

    fn rd8(&self, a: u16) -> i32 {
        self.mem[a as usize] as i32
    }
    fn rd_ty(&self, ty: Ty, lo: u16, hi: u16) -> V {
        let raw = if ty.bits() == 8 { self.rd8(lo) } else { self.rd8(lo) | (self.rd8(hi) << 8) };
        let t = T::of(ty);
        V { v: norm(raw, t), t }
    }
    fn wr_ty(&mut self, ty: Ty, lo: u16, hi: u16, v: i32) {
        self.mem[lo as usize] = (v & 0xff) as u8;
        if ty.bits() == 16 {
            self.mem[hi as usize] = ((v >> 8) & 0xff) as u8;
        }
    }

    fn lit_v(&self, v: i32) -> V {
        match self.dialect {
            // W8: a compile-time constant adopts (and is truncated to) the type of the 8-bit
            // operand it is combined with
            Dialect::W8 if (-32768..=65535).contains(&v) => V { v, t: T::LitK },
            _ => {
                if (-32768..=32767).contains(&v) {
                    V { v, t: T::I16 }
                } else {
                    V { v: norm(v, T::U16), t: T::U16 }
                }
            }
        }
    }

    /// Location of an lvalue: (type, lo address, hi address) or a register
    fn lvalue(&mut self, e: &E) -> R<LV> {
        match e {
            E::Paren(a) => self.lvalue(a),
            E::Var(n) => match self.lookup(n)? {
                Obj::Scalar { ty, addr } => Ok(LV::Mem(ty, addr, addr.wrapping_add(1))),
                Obj::RegX => Ok(LV::X),
                Obj::RegY => Ok(LV::Y),
                Obj::Ptr { addr } => Ok(LV::Mem(Ty::U16, addr, addr.wrapping_add(1))),
                o => Err(Abort::Unsupported(format!("assignment to {:?}", o))),
            },
            E::Deref(n) => match self.lookup(n)? {
                Obj::Ptr { addr } => {
                    let base = (self.rd8(addr) | (self.rd8(addr.wrapping_add(1)) << 8)) as u16;
                    Ok(LV::Mem(Ty::U8, base, 0))
                }
                Obj::Array { elem: Ty::U8, addr, .. } => Ok(LV::Mem(Ty::U8, addr, 0)),
                o => Err(Abort::Unsupported(format!("deref of {:?}", o))),
            },
            E::Idx(n, i) => {
                let o = self.lookup(n)?;
                let iv = self.eval(i)?;
                let k = match iv.t {
                    T::LitK => iv.v,
                    t => norm(iv.v, t),
                };
                match o {
                    Obj::Array { elem, n: len, addr, .. } => {
                        if k < 0 || k as usize >= len {
                            return Err(Abort::OutOfBounds(format!("{}[{}]", n, k)));
                        }
                        let lo = addr.wrapping_add(k as u16);
                        Ok(LV::Mem(elem, lo, lo.wrapping_add(len as u16)))
                    }
                    Obj::Ptr { addr } => {
                        let base = (self.rd8(addr) | (self.rd8(addr.wrapping_add(1)) << 8)) as u16;
                        // pointers of the generated programs point into 4-element arrays
                        if !(0..4).contains(&k) {
                            return Err(Abort::OutOfBounds(format!("{}[{}]", n, k)));
                        }
                        Ok(LV::Mem(Ty::U8, base.wrapping_add(k as u16), 0))
                    }
                    Obj::PtrArray { n: len, addr } => {
                        if k < 0 || k as usize >= len {
                            return Err(Abort::OutOfBounds(format!("{}[{}]", n, k)));
                        }
                        let lo = addr.wrapping_add(k as u16);
                        Ok(LV::Mem(Ty::U16, lo, lo.wrapping_add(len as u16)))
                    }
                    o => Err(Abort::Unsupported(format!("subscript of {:?}", o))),
                }
            }
            _ => Err(Abort::Unsupported(format!("not an lvalue: {:?}", e))),
        }
    }

    fn load(&self, lv: &LV) -> V {
        match lv {
            LV::X => V { v: self.x as i32, t: T::U8 },
            LV::Y => V { v: self.y as i32, t: T::U8 },
            LV::Mem(ty, lo, hi) => self.rd_ty(*ty, *lo, *hi),
        }
    }
    fn lv_ty(&self, lv: &LV) -> T {
        match lv {
            LV::X | LV::Y => T::U8,
            LV::Mem(ty, _, _) => T::of(*ty),
        }
    }
    fn store(&mut self, lv: &LV, v: V) -> V {
        let t = self.lv_ty(lv);
        let nv = norm(v.v, t);
        match lv {
            LV::X => self.x = nv as u8,
            LV::Y => self.y = nv as u8,
            LV::Mem(ty, lo, hi) => self.wr_ty(*ty, *lo, *hi, nv),
        }
        V { v: nv, t }
    }

    fn truth(&self, v: V) -> bool {
        v.v != 0
    }

    fn arith_types(&self, a: V, b: V) -> (V, V, T) {
        // returns operands converted to the common type and that type
        match self.dialect {
            Dialect::Iso => {
                let t = if a.t == T::U16 || b.t == T::U16 { T::U16 } else { T::I16 };
                (V { v: norm(a.v, t), t }, V { v: norm(b.v, t), t }, t)
            }
            Dialect::W8 => {
                let a8 = a.t.is8() || a.t == T::LitK;
                let b8 = b.t.is8() || b.t == T::LitK;
                if a8 && b8 {
                    let t = match (a.t, b.t) {
                        (T::LitK, T::LitK) => T::LitK,
                        (T::LitK, t) | (t, T::LitK) => t,
                        (T::S8, T::S8) => T::S8,
                        _ => T::U8,
                    };
                    (V { v: norm(a.v, t), t }, V { v: norm(b.v, t), t }, t)
                } else {
                    let t = if a.t == T::U16 || b.t == T::U16 { T::U16 } else { T::I16 };
                    (V { v: norm(a.v, t), t }, V { v: norm(b.v, t), t }, t)
                }
            }
        }
    }

    /// type of a comparison / logical result: int in ISO; in W8 a 0/1 value that adopts the
    /// width of the operand it is combined with
    fn bool_t(&self) -> T {
        match self.dialect {
            Dialect::Iso => T::I16,
            Dialect::W8 => T::LitK,
        }
    }

    fn promote1(&self, a: V) -> V {
        match self.dialect {
            Dialect::Iso => match a.t {
                T::U16 => a,
                _ => V { v: a.v, t: T::I16 },
            },
            Dialect::W8 => a,
        }
    }

    fn binop(&mut self, op: BinOp, a: V, b: V) -> R<V> {
        use BinOp::*;
        match op {
            Shl | Shr => {
                let l = self.promote1(a);
                let cnt = b.v;
                if !(0..16).contains(&cnt) {
                    return Err(Abort::Unsupported(format!("shift count {}", cnt)));
                }
                let r = if op == Shl {
                    ((l.v as i64) << cnt) as i32
                } else if matches!(l.t, T::S8 | T::I16 | T::LitK) && !self.shr_logical {
                    l.v >> cnt
                } else if l.t == T::S8 {
                    (((l.v & 0xff) as u32) >> cnt) as i32
                } else if matches!(l.t, T::I16 | T::LitK) {
                    (((l.v & 0xffff) as u32) >> cnt) as i32
                } else {
                    ((l.v as u32) >> cnt) as i32
                };
                Ok(V { v: norm(r, l.t), t: l.t })
            }
            Lt | Le | Gt | Ge | Eq | Ne => {
                let (x, y, _) = self.arith_types(a, b);
                let r = match op {
                    Lt => x.v < y.v,
                    Le => x.v <= y.v,
                    Gt => x.v > y.v,
                    Ge => x.v >= y.v,
                    Eq => x.v == y.v,
                    Ne => x.v != y.v,
                    _ => unreachable!(),
                };
                let _ = (a, b);
                Ok(V { v: r as i32, t: self.bool_t() })
            }
            LAnd | LOr => unreachable!("short-circuit handled by eval"),
            _ => {
                let (x, y, t) = self.arith_types(a, b);
                let r: i64 = match op {
                    Mul => x.v as i64 * y.v as i64,
                    Div => {
                        if y.v == 0 {
                            return Err(Abort::DivZero);
                        }
                        (x.v / y.v) as i64
                    }
                    Add => x.v as i64 + y.v as i64,
                    Sub => x.v as i64 - y.v as i64,
                    And => (x.v & y.v) as i64,
                    Xor => (x.v ^ y.v) as i64,
                    Or => (x.v | y.v) as i64,
                    _ => unreachable!(),
                };
                Ok(V { v: norm(r as i32, t), t })
            }
        }
    }

    pub fn eval(&mut self, e: &E) -> R<V> {
        self.tick()?;
        match e {
            E::Lit(v, _) => Ok(self.lit_v(*v)),
            E::CharLit(_, v) => Ok(self.lit_v(*v)),
            E::Paren(a) => self.eval(a),
            E::Sizeof(_, v) => Ok(self.lit_v(*v)),
            E::Var(n) => match self.lookup(n)? {
                Obj::Scalar { .. } | Obj::RegX | Obj::RegY | Obj::Ptr { .. } => {
                    let lv = self.lvalue(e)?;
                    Ok(self.load(&lv))
                }
                Obj::Array { addr, .. } | Obj::PtrArray { addr, .. } => Ok(V { v: addr as i32, t: T::U16 }),
                Obj::Const { v, ty } => {
                    let _ = ty;
                    Ok(self.lit_v(v))
                }
            },
            E::AddrOf(n) => match self.lookup(n)? {
                Obj::Scalar { addr, .. } => Ok(V { v: addr as i32, t: T::U16 }),
                o => Err(Abort::Unsupported(format!("& of {:?}", o))),
            },
            E::Deref(_) | E::Idx(..) => {
                let lv = self.lvalue(e)?;
                Ok(self.load(&lv))
            }
            E::Un(op, a) => {
                let v = self.eval(a)?;
                match op {
                    UnOp::LNot => Ok(V { v: (v.v == 0) as i32, t: self.bool_t() }),
                    UnOp::Neg => {
                        let p = self.promote1(v);
                        Ok(V { v: norm(-(p.v as i64) as i32, p.t), t: p.t })
                    }
                    UnOp::BNot => {
                        let p = self.promote1(v);
                        Ok(V { v: norm(!p.v, p.t), t: p.t })
                    }
                }
            }
            E::Bin(BinOp::LAnd, a, b) => {
                let x = self.eval(a)?;
                if !self.truth(x) {
                    return Ok(V { v: 0, t: self.bool_t() });
                }
                let y = self.eval(b)?;
                Ok(V { v: self.truth(y) as i32, t: self.bool_t() })
            }
            E::Bin(BinOp::LOr, a, b) => {
                let x = self.eval(a)?;
                if self.truth(x) {
                    return Ok(V { v: 1, t: self.bool_t() });
                }
                let y = self.eval(b)?;
                Ok(V { v: self.truth(y) as i32, t: self.bool_t() })
            }
            E::Bin(op, a, b) => {
                let x = self.eval(a)?;
                let y = self.eval(b)?;
                self.binop(*op, x, y)
            }
            E::Asg(None, l, r) => {
                // C leaves the order unspecified; generators never make it matter
                let v = self.eval(r)?;
                let lv = self.lvalue(l)?;
                Ok(self.store(&lv, v))
            }
            E::Asg(Some(op), l, r) => {
                let v = self.eval(r)?;
                let lv = self.lvalue(l)?;
                let cur = self.load(&lv);
                let nv = self.binop(*op, cur, v)?;
                Ok(self.store(&lv, nv))
            }
            E::Inc { pre, inc, e } => {
                let lv = self.lvalue(e)?;
                let cur = self.load(&lv);
                let d = if *inc { 1 } else { -1 };
                let nv = V { v: cur.v + d, t: cur.t };
                let stored = self.store(&lv, nv);
                Ok(if *pre { stored } else { cur })
            }
            E::Cond(c, a, b) => {
                let cv = self.eval(c)?;
                let r = if self.truth(cv) { self.eval(a)? } else { self.eval(b)? };
                // result type: the common type of both arms; value conversion only matters
                // for mixed signedness, which generators avoid
                Ok(r)
            }
            E::Comma(a, b) => {
                self.eval(a)?;
                self.eval(b)
            }
            E::Call(f, args) => {
                let r = self.call(f, args)?;
                match r {
                    Some(v) => Ok(v),
                    None => Ok(V { v: 0, t: T::I16 }),
                }
            }
        }
    }

    pub fn call(&mut self, fname: &str, args: &[E]) -> R<Option<V>> {
        let prog = self.prog;
        let f = prog.funcs.iter().find(|f| f.name == fname).ok_or_else(|| Abort::Unbound(fname.to_string()))?;
        if let Some(c) = self.cur_func.last() {
            self.calls.push((c.clone(), fname.to_string()));
        }
        if self.cur_func.iter().any(|c| c == fname) {
            return Err(Abort::Unsupported("recursion".into()));
        }
        let pobjs = self.bind.fparams.get(fname).cloned().ok_or_else(|| Abort::Unbound(fname.to_string()))?;
        if args.len() != pobjs.len() {
            return Err(Abort::Unsupported("arity".into()));
        }
        let mut scope = HashMap::new();
        for (i, a) in args.iter().enumerate() {
            let v = self.eval(a)?;
            let lv = match &pobjs[i] {
                Obj::Scalar { ty, addr } => LV::Mem(*ty, *addr, addr.wrapping_add(1)),
                Obj::Ptr { addr } => LV::Mem(Ty::U16, *addr, addr.wrapping_add(1)),
                o => return Err(Abort::Unsupported(format!("param {:?}", o))),
            };
            self.store(&lv, v);
            scope.insert(f.params[i].name.clone(), pobjs[i].clone());
        }
        // new function frame: hide caller's local scopes
        let saved_scopes = std::mem::take(&mut self.scopes);
        self.scopes.push(scope);
        self.local_cursor.push(0);
        self.cur_func.push(fname.to_string());
        let flow = self.exec_list(&f.body, true);
        self.cur_func.pop();
        self.local_cursor.pop();
        self.scopes = saved_scopes;
        let ret = match flow? {
            Flow::Return(v) => v,
            Flow::Normal => None,
            Flow::Break | Flow::Continue => return Err(Abort::Unsupported("break/continue outside loop".into())),
            Flow::Goto(l) => return Err(Abort::Unsupported(format!("goto {} not resolved", l))),
        };
        if f.ret.is_some() {
            match ret {
                Some(v) => {
                    let t = if self.plain_char_signed { T::S8 } else { T::U8 };
                    Ok(Some(V { v: norm(v.v, t), t }))
                }
                None => Err(Abort::NoReturnValue(fname.to_string())),
            }
        } else {
            Ok(None)
        }
    }

    /// Execute a statement list; `top` = function top level (goto targets live here)
    fn exec_list(&mut self, list: &[S], top: bool) -> R<Flow> {
        self.scopes.push(HashMap::new());
        let mut i = 0;
        let mut res = Flow::Normal;
        while i < list.len() {
            let fl = self.exec(&list[i])?;
            match fl {
                Flow::Normal => i += 1,
                Flow::Goto(l) if top => {
                    // find labelled statement at top level
                    match list.iter().position(|s| matches!(s, S::Label(x, _) if *x == l)) {
                        Some(k) => {
                            self.tick()?;
                            i = k;
                        }
                        None => return Err(Abort::Unsupported(format!("goto {}: label not at top level", l))),
                    }
                }
                other => {
                    res = other;
                    break;
                }
            }
        }
        self.scopes.pop();
        Ok(res)
    }

    fn declare(&mut self, d: &Decl) -> R<()> {
        let f = self.cur_func.last().cloned().unwrap_or_default();
        let cur = *self.local_cursor.last().unwrap();
        // locals are statically allocated: the k-th declaration *in source order* owns slot k.
        // Source order == execution-independent, so find the slot by identity of the decl.
        let _ = cur;
        let slot = self.decl_slot(&f, d)?;
        let o = self.bind.flocals.get(&f).and_then(|v| v.get(slot)).cloned().ok_or_else(|| Abort::Unbound(d.name.clone()))?;
        self.scopes.last_mut().unwrap().insert(d.name.clone(), o.clone());
        if let Some(init) = &d.init {
            let v = self.eval(init)?;
            let lv = match &o {
                Obj::Scalar { ty, addr } => LV::Mem(*ty, *addr, addr.wrapping_add(1)),
                Obj::Ptr { addr } => LV::Mem(Ty::U16, *addr, addr.wrapping_add(1)),
                o => return Err(Abort::Unsupported(format!("initialiser for {:?}", o))),
            };
            self.store(&lv, v);
        }
        Ok(())
    }

    fn decl_slot(&self, fname: &str, d: &Decl) -> R<usize> {
        let f = self.prog.funcs.iter().find(|f| f.name == fname).ok_or_else(|| Abort::Unbound(fname.to_string()))?;
        let mut decls = Vec::new();
        for s in &f.body {
            collect_decls(s, &mut decls);
        }
        decls.iter().position(|x| std::ptr::eq(*x, d)).ok_or_else(|| Abort::Unbound(d.name.clone()))
    }

    fn exec(&mut self, s: &S) -> R<Flow> {
        self.tick()?;
        match s {
            S::Expr(e) => {
                self.eval(e)?;
                Ok(Flow::Normal)
            }
            S::Empty => Ok(Flow::Normal),
            S::Block(v) => self.exec_list(v, false),
            S::Decl(ds) => {
                for d in ds {
                    self.declare(d)?;
                }
                Ok(Flow::Normal)
            }
            S::If(c, a, b) => {
                let cv = self.eval(c)?;
                if self.truth(cv) {
                    self.exec_scoped(a)
                } else if let Some(b) = b {
                    self.exec_scoped(b)
                } else {
                    Ok(Flow::Normal)
                }
            }
            S::While(c, b) => {
                loop {
                    let cv = self.eval(c)?;
                    if !self.truth(cv) {
                        break;
                    }
                    match self.exec_scoped(b)? {
                        Flow::Break => break,
                        Flow::Normal | Flow::Continue => {}
                        other => return Ok(other),
                    }
                }
                Ok(Flow::Normal)
            }
            S::DoWhile(b, c) => {
                loop {
                    match self.exec_scoped(b)? {
                        Flow::Break => break,
                        Flow::Normal | Flow::Continue => {}
                        other => return Ok(other),
                    }
                    let cv = self.eval(c)?;
                    if !self.truth(cv) {
                        break;
                    }
                }
                Ok(Flow::Normal)
            }
            S::For(i, c, u, b) => {
                if let Some(i) = i {
                    self.eval(i)?;
                }
                loop {
                    if let Some(c) = c {
                        let cv = self.eval(c)?;
                        if !self.truth(cv) {
                            break;
                        }
                    }
                    match self.exec_scoped(b)? {
                        Flow::Break => break,
                        Flow::Normal | Flow::Continue => {}
                        other => return Ok(other),
                    }
                    if let Some(u) = u {
                        self.eval(u)?;
                    }
                    self.tick()?;
                }
                Ok(Flow::Normal)
            }
            S::Switch(e, cases) => {
                let v = self.eval(e)?;
                let vv = match v.t {
                    T::LitK => v.v,
                    t => norm(v.v, t),
                };
                // matching: compare in the (8-bit) domain of the controlling expression when it is 8 bit
                let matches = |l: i32| -> bool {
                    if v.t.is8() {
                        norm(l, v.t) == vv
                    } else {
                        l == vv
                    }
                };
                let mut start = None;
                for (k, c) in cases.iter().enumerate() {
                    if c.labels.iter().any(|l| matches(*l)) {
                        start = Some(k);
                        break;
                    }
                }
                if start.is_none() {
                    start = cases.iter().position(|c| c.is_default);
                }
                if let Some(k0) = start {
                    self.scopes.push(HashMap::new());
                    let mut out = Flow::Normal;
                    'outer: for c in &cases[k0..] {
                        for st in &c.body {
                            match self.exec(st)? {
                                Flow::Normal => {}
                                Flow::Break => break 'outer,
                                other => {
                                    out = other;
                                    break 'outer;
                                }
                            }
                        }
                    }
                    self.scopes.pop();
                    return Ok(out);
                }
                Ok(Flow::Normal)
            }
            S::Break => Ok(Flow::Break),
            S::Continue => Ok(Flow::Continue),
            S::Return(e) => {
                let v = match e {
                    Some(e) => Some(self.eval(e)?),
                    None => None,
                };
                Ok(Flow::Return(v))
            }
            S::Goto(l) => Ok(Flow::Goto(l.clone())),
            S::Label(_, st) => self.exec(st),
            S::Load(e) => {
                if let Ok(LV::Mem(_, lo, _)) = self.lvalue(e) {
                    self.events.push(Event::Load(lo));
                }
                Ok(Flow::Normal)
            }
            S::Store(e) => {
                if let Ok(LV::Mem(_, lo, _)) = self.lvalue(e) {
                    self.events.push(Event::Store(lo));
                }
                Ok(Flow::Normal)
            }
            S::Strobe(n) => {
                if let Obj::Array { addr, .. } = self.lookup(n)? {
                    self.events.push(Event::Strobe(addr));
                }
                Ok(Flow::Normal)
            }
            S::Csleep(n) => {
                self.events.push(Event::Csleep(*n));
                Ok(Flow::Normal)
            }
            S::Asm(t, _) => {
                self.events.push(Event::Asm(t.clone()));
                Ok(Flow::Normal)
            }
        }
    }

    fn exec_scoped(&mut self, s: &S) -> R<Flow> {
        match s {
            S::Block(_) => self.exec(s),
            _ => {
                self.scopes.push(HashMap::new());
                let r = self.exec(s);
                self.scopes.pop();
                r
            }
        }
    }

    pub fn run_main(&mut self) -> R<()> {
        self.call("main", &[])?;
        Ok(())
    }
}

#[derive(Clone, Debug)]
pub enum LV {
    X,
    Y,
    Mem(Ty, u16, u16),
}
