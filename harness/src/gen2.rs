//! Text-template families: F2.ctrl, F3.fn, F4.seq, F7.scope (templates are parsed by the
//! harness's own C parser into the harness AST; the source given to the compiler is the
//! pretty-printed AST).

use crate::ast::*;
use crate::cparse;
use crate::engine::Tier;
use crate::exec::InputVar;
use crate::sem::{cap_inputs, derive_inputs, SemCase};

pub const D0_TEXT: &str = "unsigned char a, b, c, r; short s, t; unsigned short u; unsigned char arr[4]; const unsigned char tab[4] = {1, 2, 0x80, 0xff}; short sarr[2]; char *p;\n";
pub const D0S_TEXT: &str = "signed char a, b, c, r; short s, t; unsigned short u; unsigned char arr[4]; const unsigned char tab[4] = {1, 2, 0x80, 0xff}; short sarr[2]; char *p;\n";

pub fn case_from_text(family: &str, src: &str, small: &[(&str, &[i32])], tags: Vec<&'static str>, max_states: usize) -> SemCase {
    let prog = match cparse::parse_program(src) {
        Ok(p) => p,
        Err(e) => panic!("harness template does not parse: {}\n{}", e, src),
    };
    let mut inputs = derive_inputs(&prog, false);
    for (n, vals) in small {
        for iv in inputs.iter_mut() {
            if iv.name == *n {
                // keep subscript-limited domains if they are already smaller
                if iv.values.len() > vals.len() || iv.values.iter().any(|v| *v > 255) || vals.iter().all(|v| *v < 8) {
                    if !(iv.values.len() <= 3 && iv.values.iter().all(|v| *v < 4)) {
                        iv.values = vals.to_vec();
                    }
                }
            }
        }
    }
    let inputs: Vec<InputVar> = cap_inputs(inputs, max_states);
    let mut ptags = crate::gen::program_tags(&prog);
    ptags.extend(tags.iter());
    let tags = ptags;
    SemCase { family: family.to_string(), prog, inputs, extra_opts: vec![], logged: vec![], tags }
}

fn main_with(decls: &str, extra_funcs: &str, body: &str) -> String {
    format!("{}{}void main()\n{{\n{}\n}}\n", decls, extra_funcs, body)
}

pub const CONDS: [&str; 53] = [
    "a", "!a", "a == 0", "a != 0", "a == b", "a != b", "a < b", "a <= b", "a > b", "a >= b", "a < 3", "a <= 3", "a > 3", "a >= 3", "a > 0", "3 < a", "X", "!X", "X < 2", "X == 1", "Y != 0", "Y", "a && b", "a || b",
    "a && !b", "a || !b", "!(a && b)", "a == 1 || b == 2", "a < b && b < c", "a == 1 && b == 2 && c == 0", "a || b || c", "s", "s == 0", "s != 0", "s < t", "s == t", "s != t", "u > 0x100", "arr[X]", "arr[X] == 0x80", "tab[Y] != 1", "a & 1",
    "a & 0x80", "(a & 3) == 1", "a + b", "a - b", "f()", "f() == 2",
    "s > 1000 && (a || b)", "s > 1000 && t != 2000", "s <= 1000 || a", "u > 0x100 && (a || b)", "s != t && (a || b) && u <= 0x100",
];

pub const CONDS_QUICK: [&str; 24] = ["a", "!a", "a == 0", "a != b", "a < b", "a <= 3", "a > 3", "a >= b", "X", "X < 2", "Y != 0", "a && b", "a || !b", "a == 1 || b == 2", "s", "s == 0", "s < t", "arr[X]", "a & 1", "(a & 3) == 1", "a - b", "f()", "s > 1000 && (a || b)", "s > 1000 && t != 2000"];

pub const SIMPLE: [&str; 9] = ["r = 1;", "r++;", "r = a;", "r = r + b;", "{ b = a; c = 2; }", "X++;", "arr[X] = 5;", "s = 300;", "g();"];

const FUNCS_FG: &str = "char f() { return c; }\nvoid g() { c = c + 1; }\n";

fn small8() -> &'static [i32] {
    &[0, 1, 2, 3, 5, 255]
}

pub fn f2(tier: Tier) -> Vec<SemCase> {
    let mut v = Vec::new();
    let quick = tier == Tier::Quick;
    let conds: Vec<&str> = if quick { CONDS_QUICK.to_vec() } else { CONDS.to_vec() };
    let simple: Vec<&str> = if quick { SIMPLE[..5].to_vec() } else { SIMPLE.to_vec() };
    let decls: Vec<(&str, &'static str)> = if quick { vec![(D0_TEXT, "")] } else { vec![(D0_TEXT, ""), (D0S_TEXT, "signed")] };
    for (d, _sg) in &decls {
        // if / if-else / else-if
        for c in &conds {
            for s1 in &simple {
                v.push(case_from_text("F2.if", &main_with(d, FUNCS_FG, &format!("if ({}) {}", c, s1)), &[], vec!["if"], 400));
                for s2 in simple.iter().take(3) {
                    if s1 != s2 {
                        v.push(case_from_text("F2.ifelse", &main_with(d, FUNCS_FG, &format!("if ({}) {} else {}", c, s1, s2)), &[], vec!["ifelse"], 400));
                    }
                }
            }
            for c2 in conds.iter().take(if quick { 4 } else { 10 }) {
                v.push(case_from_text("F2.elseif", &main_with(d, FUNCS_FG, &format!("if ({}) r = 1; else if ({}) r = 2; else r = 3;", c, c2)), &[], vec!["elseif"], 400));
            }
            // condition value sequencing: statement before and after
            v.push(case_from_text("F2.ifseq", &main_with(d, FUNCS_FG, &format!("r = 0; if ({}) r = 1; c = r + 1; if ({}) c++;", c, c)), &[], vec!["ifseq"], 400));
        }
        // while / do-while with terminating (condition, body) pairs
        let loops: Vec<(&str, &str)> = vec![
            ("a", "a--; r++;"),
            ("a != 0", "a--; r += 2;"),
            ("a < b", "a++; r++;"),
            ("a != b", "a++; r++;"),
            ("a <= b && a != 255", "a++; r++;"),
            ("X < 3", "X++; r += X;"),
            ("X != 3", "X++; arr[X] = r; r++;"),
            ("a > 3", "a--; r++;"),
            ("a >= 3", "a--; r++;"),
            ("a && b", "a--; b--; r++;"),
            ("a || b", "if (a) a--; if (b) b--; r++;"),
            ("s", "s--; r++;"),
            ("s != t", "s++; r++;"),
            ("s < t", "s++; r++;"),
            ("Y", "Y--; r += 3;"),
            ("arr[X] != 0x7F && X < 3", "X++; r++;"),
            ("!(a == 5)", "a++; r++;"),
            ("f()", "g(); r++; if (r == 3) break;"),
        ];
        let small: Vec<(&str, &[i32])> = vec![("a", small8()), ("b", small8()), ("c", small8()), ("r", &[0, 7]), ("X", &[0, 1, 2]), ("Y", &[0, 1, 3]), ("s", &[0, 1, 2, 0x100, 0xffff]), ("t", &[0, 1, 3, 0x101])];
        for (c, b) in &loops {
            v.push(case_from_text("F2.while", &main_with(d, FUNCS_FG, &format!("r = 0; while ({}) {{ {} }}", c, b)), &small, vec!["while"], 600));
            v.push(case_from_text("F2.dowhile", &main_with(d, FUNCS_FG, &format!("r = 0; do {{ {} }} while ({});", b, c)), &small, vec!["dowhile"], 600));
            v.push(case_from_text("F2.forw", &main_with(d, FUNCS_FG, &format!("r = 0; for (; {}; ) {{ {} }}", c, b)), &small, vec!["for"], 600));
            v.push(case_from_text("F2.whilecont", &main_with(d, FUNCS_FG, &format!("r = 0; while ({}) {{ {} if (r & 1) continue; c++; }}", c, b)), &small, vec!["while", "continue"], 600));
            v.push(case_from_text("F2.whilebrk", &main_with(d, FUNCS_FG, &format!("r = 0; while ({}) {{ {} if (r == 2) break; c++; }} c = c + r;", c, b)), &small, vec!["while", "break"], 600));
        }
        // for loops
        let fbodies: Vec<&str> = vec![
            "r++;",
            "r += X;",
            "arr[X] = X;",
            "{ if (X == 1) continue; r++; }",
            "{ if (arr[X] == 0x7F) break; r++; }",
            "{ r++; if (r == 2) break; }",
            "s += X;",
            "g();",
            "{ c = tab[X]; r = r + c; }",
            "{ if (a == X) r = 9; else r++; }",
        ];
        let fheads: Vec<String> = {
            let mut h = Vec::new();
            for k in [0, 1, 3, 4] {
                h.push(format!("for (X = 0; X < {}; X++)", k));
                h.push(format!("for (X = 0; X != {}; X++)", k));
                h.push(format!("for (X = {}; X != 0; X--)", k.min(3)));
                h.push(format!("for (X = 0; X <= {}; X++)", k.min(3)));
            }
            h.push("for (X = 3; X > 0; X--)".into());
            h.push("for (X = 0; X < a && X < 4; X++)".into());
            h.push("for (X = 0, r = 0; X < 3; X++, r++)".into());
            h.push("for (X = 0; ; X++)".into()); // needs break in body
            h
        };
        for h in &fheads {
            for b in &fbodies {
                if h.contains("; ;") && !b.contains("break") {
                    continue;
                }
                v.push(case_from_text("F2.for", &main_with(d, FUNCS_FG, &format!("r = 0; {} {}", h, b)), &small, vec!["for"], 300));
            }
        }
        // counting with Y and variables
        for (h, b) in [
            ("for (Y = 0; Y != 3; Y++)", "r += tab[Y];"),
            ("for (Y = 3; Y != 0; Y--)", "arr[Y] = Y;"),
            ("for (a = 0; a < b; a++)", "r++;"),
            ("for (a = b; a != 0; a--)", "r += 2;"),
            ("for (s = 0; s < 300; s += 100)", "r++;"),
            ("for (s = 0; s != t; s++)", "r++;"),
            ("for (c = 0; c < 3; c++)", "{ X = c; arr[X] = c; }"),
        ] {
            v.push(case_from_text("F2.for2", &main_with(d, FUNCS_FG, &format!("r = 0; {} {}", h, b)), &small, vec!["for"], 300));
        }
        // nested loops
        for body in [
            "for (X = 0; X < 3; X++) for (Y = 0; Y < 2; Y++) r++;",
            "for (X = 0; X < 3; X++) { Y = 0; while (Y < X) { Y++; r++; } }",
            "for (X = 0; X < 3; X++) { for (Y = 0; Y < 3; Y++) { if (Y == 1) break; r++; } c++; }",
            "for (X = 0; X < 3; X++) { for (Y = 0; Y < 3; Y++) { if (Y == 1) continue; r++; } if (X == 1) break; }",
            "while (a) { b = 2; do { r++; b--; } while (b); a--; }",
            "for (X = 0; X < 2; X++) { if (a) { for (Y = 0; Y < 2; Y++) r += 2; } else r++; }",
            "if (a) if (b) r = 1; else r = 2; else r = 3;",
            "if (a) if (b) r = 1; else r = 2;",
            "if (a) { if (b) r = 1; } else r = 2;",
            "if (a == 1) if (b == 2) if (c == 3) r = 1; else r = 2; else r = 3; else r = 4;",
            "if (a) while (b) { b--; if (b == 1) r = 5; else r++; } else r = 7;",
        ] {
            v.push(case_from_text("F2.nest", &main_with(d, FUNCS_FG, &format!("r = 0; {}", body)), &small, vec!["nested"], 300));
        }
        // switch: all arrangements of <= 3 case groups
        let scrut: Vec<&str> = if quick { vec!["a", "X", "a & 3"] } else { vec!["a", "X", "a + 1", "a & 3", "Y", "arr[X]"] };
        let label_orders: [[i32; 5]; 3] = [[0, 1, 2, 5, 255], [1, 0, 2, 5, 255], [5, 2, 0, 1, 255]];
        for sc in &scrut {
          for labels in &label_orders {
            for n in 1..=3usize {
                if n == 1 && labels[0] != 0 && labels[0] != 1 {
                    continue;
                }
                // label multiplicity per group (1 or 2), body kind per group (0=assign+break, 1=fallthrough assign), default kind 0..3
                let combos = 1usize << n;
                for lm in 0..combos {
                    for bk in 0..combos {
                        for dk in 0..3 {
                            if quick && n == 3 && (lm % 3 != 0 || dk == 2) {
                                continue;
                            }
                            let mut body = format!("r = 0; switch ({}) {{ ", sc);
                            let mut li = 0;
                            for g in 0..n {
                                let nl = if (lm >> g) & 1 == 1 { 2 } else { 1 };
                                for _ in 0..nl {
                                    body.push_str(&format!("case {}: ", labels[li % labels.len()]));
                                    li += 1;
                                }
                                if (bk >> g) & 1 == 0 {
                                    body.push_str(&format!("r = {}; break; ", g + 1));
                                } else {
                                    body.push_str(&format!("r += {}; ", g + 1));
                                }
                            }
                            match dk {
                                1 => body.push_str("default: r = 9; "),
                                2 => body.push_str("default: r += 9; break; "),
                                _ => {}
                            }
                            body.push_str("} c = r;");
                            let small_sw: Vec<(&str, &[i32])> = vec![("a", &[0, 1, 2, 3, 4, 5, 6, 254, 255]), ("X", &[0, 1, 2])];
                            v.push(case_from_text("F2.switch", &main_with(d, FUNCS_FG, &body), &small_sw, vec!["switch"], 300));
                        }
                    }
                }
            }
          }
        }
        // switch inside loop with continue / break binding
        for body in [
            "r = 0; for (X = 0; X < 4; X++) { switch (X) { case 1: continue; case 2: r += 10; break; default: r++; } c++; }",
            "r = 0; for (X = 0; X < 4; X++) { switch (a) { case 0: r++; break; case 1: r += 2; } if (X == 2) break; }",
            "r = 0; X = 0; do { switch (X) { case 0: X++; continue; case 2: r += 10; break; default: r++; } X++; c++; } while (X < 5);",
            "r = 0; X = 0; while (X < 5) { X++; switch (X) { case 1: continue; case 3: r += 10; break; default: r++; } c++; }",
            "r = 0; X = 0; do { X++; if (X == 2) continue; r++; } while (X != 4);",
            "r = 0; for (X = 0; X < 3; X++) { Y = 0; do { Y++; switch (Y) { case 1: continue; default: r++; } } while (Y < 3); }",
        ] {
            v.push(case_from_text("F2.switchloop", &main_with(d, FUNCS_FG, body), &small, vec!["switch", "for"], 300));
        }
        // goto
        for body in [
            "r = 0; goto l1; r = 1; l1: r += 2;",
            "r = 0; l0: r++; if (r < 3) goto l0; c = r;",
            "r = 0; for (X = 0; X < 4; X++) { if (X == a) goto out; r++; } r = 99; out: c = r;",
            "r = 0; if (a) goto skip; r = 5; skip: r++;",
            "r = 0; goto l2; l1: r += 1; goto l3; l2: r += 2; goto l1; l3: r += 4;",
        ] {
            v.push(case_from_text("F2.goto", &main_with(d, FUNCS_FG, body), &small, vec!["goto"], 300));
        }
    }
    v
}

// ---------------------------------------------------------------------------------------
// F7.scope

pub fn f7() -> Vec<SemCase> {
    let mut v = Vec::new();
    let small: Vec<(&str, &[i32])> = vec![];
    for body in [
        "{ char i; i = a; r = i + 1; }",
        "char i; i = 1; { char i; i = 2; r = i; } r += i;",
        "{ char i; i = a; r = i; } { char i; i = b; r += i; }",
        "char i = 3; char j = i + a; r = j;",
        "char i; short k; k = a; i = b; k += i; s = k;",
        "char i; for (i = 0; i < 3; i++) { char j; j = i + 1; r += j; }",
        "char a; a = 5; r = a;",
        "char i; i = a; if (i) { char i; i = 7; r = i; } else r = i;",
    ] {
        v.push(case_from_text("F7.scope", &main_with(D0_TEXT, "", &format!("r = 0; {}", body)), &small, vec!["scope"], 300));
    }
    for (funcs, body) in [
        ("char h(char a) { return a + 1; }\n", "r = h(b) + a;"),
        ("char h(char a) { char b; b = a + 1; return b; }\n", "r = h(c); c = b;"),
        ("void h(char v) { char i; i = v; c = i; }\nvoid k(char v) { char i; i = v + 1; r = i; }\n", "h(a); k(b);"),
        ("char h(char v) { char i; i = v; { char i; i = 1; c = i; } return i; }\n", "r = h(a);"),
        ("char h(char r) { r++; return r; }\n", "r = 1; c = h(a); b = r;"),
    ] {
        v.push(case_from_text("F7.scope", &main_with(D0_TEXT, funcs, body), &small, vec!["scope"], 300));
    }
    v
}

// ---------------------------------------------------------------------------------------
// F3.fn

pub struct FnLib {
    pub name: &'static str,
    pub text: &'static str,
    pub inlinable: bool,
    pub uses: &'static [&'static str],
}

pub const FNLIB: [FnLib; 9] = [
    FnLib { name: "f0", text: "void f0() { c = c + 1; }", inlinable: true, uses: &[] },
    FnLib { name: "f1", text: "char f1() { return a + 1; }", inlinable: true, uses: &[] },
    FnLib { name: "f2", text: "char f2(char v) { return v + b; }", inlinable: true, uses: &[] },
    FnLib { name: "f3", text: "char f3(char v, char w) { if (v < w) return v; return w; }", inlinable: true, uses: &[] },
    FnLib { name: "f4", text: "void f4(char v) { arr[X] = v; }", inlinable: true, uses: &[] },
    FnLib { name: "f5", text: "char f5(char *q) { return q[Y]; }", inlinable: true, uses: &[] },
    FnLib { name: "f6", text: "char f6(char v) { char i; i = 0; while (v) { v--; i += 2; } return i; }", inlinable: true, uses: &[] },
    FnLib { name: "f7", text: "char f7(char v) { return f2(v) + 1; }", inlinable: true, uses: &["f2"] },
    FnLib { name: "f8", text: "void f8(char v, short w) { s = w + v; }", inlinable: true, uses: &[] },
];

pub const CALL_SITES: [(&str, &[&str]); 30] = [
    ("f0();", &["f0"]),
    ("f0(); f0();", &["f0"]),
    ("r = f1();", &["f1"]),
    ("r = f1() + a;", &["f1"]),
    ("r = a + f1();", &["f1"]),
    ("r = f2(a);", &["f2"]),
    ("r = f2(3);", &["f2"]),
    ("r = f2(a + 1);", &["f2"]),
    ("r = f2(a) + c;", &["f2"]),
    ("r = c + f2(a);", &["f2"]),
    ("r = f2(f1());", &["f1", "f2"]),
    ("r = f1() + f2(c);", &["f1", "f2"]),
    ("r = f3(a, b);", &["f3"]),
    ("r = f3(b, a);", &["f3"]),
    ("r = f3(a, 3);", &["f3"]),
    ("r = f3(f1(), c);", &["f1", "f3"]),
    ("f4(a);", &["f4"]),
    ("f4(a); f4(b);", &["f4"]),
    ("r = f5(arr);", &["f5"]),
    ("r = f5(tab);", &["f5"]),
    ("p = arr; r = f5(p);", &["f5"]),
    ("r = f6(a);", &["f6"]),
    ("r = f7(a);", &["f2", "f7"]),
    ("if (f1()) r = 1; else r = 2;", &["f1"]),
    ("if (f2(a) == 3) r = 1; else r = 2;", &["f2"]),
    ("r = 0; for (X = 0; X < 3; X++) r += f2(X);", &["f2"]),
    ("r = 0; while (f1() != 4) { a++; r++; }", &["f1"]),
    ("arr[X] = f2(a);", &["f2"]),
    ("f8(a, s);", &["f8"]),
    ("X = f1(); Y = f2(X);", &["f1", "f2"]),
];

/// programs: one call-site body + the functions it needs, for every subset of them marked inline
pub fn f3(tier: Tier, with_inline_subsets: bool) -> Vec<(SemCase, Vec<String>, u32)> {
    // returns (case, function names in definition order, inline mask)
    let mut out = Vec::new();
    let small: Vec<(&str, &[i32])> = vec![("a", &[0, 1, 2, 3, 5, 0x80, 255]), ("b", &[0, 1, 2, 0x7f, 255]), ("c", &[0, 1, 4, 255]), ("X", &[0, 1, 2]), ("Y", &[0, 1, 3])];
    let _ = tier;
    for (body, used) in CALL_SITES.iter() {
        // definition order = library order (callee before caller)
        let mut names: Vec<&str> = Vec::new();
        for f in FNLIB.iter() {
            if used.contains(&f.name) {
                names.push(f.name);
            }
        }
        let n = names.len();
        let masks: Vec<u32> = if with_inline_subsets { (0..(1u32 << n)).collect() } else { vec![0] };
        for mask in masks {
            let mut funcs = String::new();
            for (k, nm) in names.iter().enumerate() {
                let f = FNLIB.iter().find(|f| f.name == *nm).unwrap();
                if (mask >> k) & 1 == 1 {
                    funcs.push_str("inline ");
                }
                funcs.push_str(f.text);
                funcs.push('\n');
            }
            // an unused function and a prototype-first variant are added for mask 0
            let src = main_with(D0_TEXT, &funcs, body);
            let c = case_from_text("F3.fn", &src, &small, vec!["fn"], 500);
            out.push((c, names.iter().map(|s| s.to_string()).collect(), mask));
        }
    }
    out
}

// ---------------------------------------------------------------------------------------
// F4.seq

pub const SEQ_ALPHABET: [&str; 76] = [
    "a = 0;",
    "a = 1;",
    "a = b;",
    "b = a;",
    "X = a;",
    "a = X;",
    "Y = a;",
    "X = Y;",
    "X++;",
    "Y--;",
    "a++;",
    "b--;",
    "a += b;",
    "a = b + 1;",
    "a <<= 1;",
    "arr[X] = a;",
    "a = arr[X];",
    "arr[Y] = b;",
    "a = arr[Y];",
    "arr[0] = a;",
    "p[Y] = a;",
    "s = a;",
    "s++;",
    "s += a;",
    "if (a) b = 1;",
    "if (X) a = 2;",
    "if (a == 1) b = 3;",
    "if (Y == 0) a = 4;",
    "r = a == b;",
    "X = 1;",
    "Y = 2;",
    "a = 5;",
    "if (a == 5) r = 1; else r = 2;",
    "if (X == 1) r = 3;",
    "if (Y != 2) r = 4;",
    "f();",
    "X = s;",
    "s <<= 1;",
    "s >>= 1;",
    "Y = s >> 8;",
    "a >>= 1;",
    "arr[1] = Y;",
    "b = arr[X];",
    "if (X == 1) X++;",
    "s--;",
    "if (X == 1) { X++; if (X == 1) r = 3; }",
    "if (Y == 2) { Y--; if (Y == 2) r = 4; }",
    "if (a == 5) { a++; if (a == 5) r = 1; else r = 2; }",
    "X = arr[Y];",
    "Y = arr[X] & 3;",
    "Y = a & 3;",
    "X = a & 3;",
    "X = arr[Y]; b = 1;",
    "Y = arr[X] & 3; b = 2;",
    "Y = a; b = 1;",
    "X = a; b = 2;",
    // the following are not C-observable (excluded from reference comparison, kept for the differential checks)
    "load(a);",
    "store(a);",
    "load(X);",
    "strobe(REG);",
    "csleep(2);",
    "csleep(5);",
    "csleep(7);",
    "asm(\"LDA #5\", 2);",
    "asm(\"INX\", 1);",
    "asm(\"NOP\", 1);",
    // added later (C-observable again; appended so that the indices above keep their meaning)
    "X = 0;",
    "a = X + 2;",
    "a = X + 2; X = 0;",
    "Y = 0;",
    "b = Y | 1; Y = 0;",
    "if (Y) b = 3;",
    "if (g()) r = 5;",
    "if (g() == 0) r = 6;",
    "if (s) r = 7;",
    "a = (b + 1) + !c;",
];

pub const SEQ_NOT_C_OBSERVABLE: std::ops::Range<usize> = 56..66;
pub fn seq_c_observable(i: usize) -> bool {
    !SEQ_NOT_C_OBSERVABLE.contains(&i)
}
pub const SEQ_DECL: &str = "unsigned char a, b, c, r; short s; unsigned char arr[4]; char *p; char *const REG = 0x3e;\nvoid f() { c = c + 1; }\nunsigned char g() { return c++; }\n";

pub fn f4_indices(tier: Tier, observable_only: bool) -> Vec<Vec<usize>> {
    let all: Vec<usize> = (0..SEQ_ALPHABET.len()).filter(|i| !observable_only || seq_c_observable(*i)).collect();
    let mut v: Vec<Vec<usize>> = Vec::new();
    for i in &all {
        v.push(vec![*i]);
    }
    for i in &all {
        for j in &all {
            v.push(vec![*i, *j]);
        }
    }
    let core: Vec<usize> = match tier {
        Tier::Quick => all.iter().cloned().filter(|k| [0, 2, 4, 5, 8, 10, 12, 15, 16, 21, 24, 25, 26, 28, 29, 31, 32, 33, 35, 57, 59, 61, 63, 64, 45, 66, 68, 72].contains(k)).collect(),
        Tier::Thorough => all.clone(),
    };
    for i in &core {
        for j in &core {
            for k in &core {
                v.push(vec![*i, *j, *k]);
            }
        }
    }
    if tier == Tier::Quick {
        // the optimiser and the generator treat X and Y in separate (copied) code: a second core built around Y
        let core_y: Vec<usize> = [2usize, 3, 6, 7, 9, 10, 11, 17, 18, 27, 30, 34, 36, 37, 38, 39, 40, 41, 42, 43, 44, 46, 47, 48, 49, 50, 51, 52, 53, 54, 55, 69, 70, 71, 73, 74].iter().cloned().filter(|k| all.contains(k)).collect();
        for i in &core_y {
            for j in &core_y {
                for k in &core_y {
                    if !(core.contains(i) && core.contains(j) && core.contains(k)) {
                        v.push(vec![*i, *j, *k]);
                    }
                }
            }
        }
    }
    v
}

pub fn f4_case(idxs: &[usize]) -> SemCase {
    let body: Vec<&str> = idxs.iter().map(|i| SEQ_ALPHABET[*i]).collect();
    let src = format!("{}void main()\n{{\n{}\n}}\n", SEQ_DECL, body.join("\n"));
    let small: Vec<(&str, &[i32])> = vec![("a", &[0, 1, 5, 0x80, 255]), ("b", &[0, 1, 0xfe]), ("X", &[0, 1, 2]), ("Y", &[0, 2, 3]), ("s", &[0, 0x100, 0x101, 0xffff]), ("r", &[0]), ("c", &[0, 0xff])];
    let mut c = case_from_text("F4.seq", &src, &small, vec!["seq"], 300);
    c.logged = vec!["REG".into()];
    c
}

// ---------------------------------------------------------------------------------------
// F8.big: control constructs whose bodies are k copies of a statement, swept so that every
// branch the construct emits lands around the +-127 byte limit

pub fn f8(tier: Tier) -> Vec<SemCase> {
    let mut v = Vec::new();
    // (statement, approximate size in bytes)
    let stmts: Vec<(&str, usize)> = vec![("r++;", 2), ("r = 1;", 4), ("X++;", 1), ("c = c + 1;", 7), ("arr[X] = 1;", 4), ("asm(\"NOP\", 1);", 1), ("s++;", 6), ("arr[Y] = c;", 5), ("c = arr[Y];", 5), ("sarr[X] = s;", 8), ("ib();", 6), ("ij();", 11), ("sarr[Y] = s;", 10), ("s = sarr[Y];", 10)];
    let templates: Vec<(&str, &str)> = vec![
        ("if (a) {", "}"),
        ("if (a) {", "} else r = 7;"),
        ("if (a == b) {", "}"),
        ("if (a < b) {", "}"),
        ("if (a <= b) {", "}"),
        ("if (a > b) {", "}"),
        ("if (a >= b) {", "} else c = 9;"),
        ("if (a && b) {", "}"),
        ("if (a || b) {", "}"),
        ("while (a) {", "a--; }"),
        ("do {", "a--; } while (a);"),
        ("do {", "a--; } while (a != b);"),
        ("do {", "b++; } while (b <= a);"),
        ("do {", "b++; } while (b < a);"),
        ("for (Y = 0; Y != 2; Y++) {", "}"),
        ("for (Y = 0; Y < 2; Y++) {", "}"),
        ("switch (a) { case 1:", "break; case 2: r = 5; break; default: r = 6; }"),
        ("while (a) { if (b) break;", "a--; }"),
        ("while (a) { a--; if (b) continue;", "}"),
        // a forward branch over a tail whose own branches get repaired (cascading repairs)
        ("do { if (b) break;", "a--; } while (a);"),
        ("do { r = 1; r = 1; r = 1; r = 1; r = 1; r = 1; r = 1; r = 1; r = 1; r = 1; if (b) break;", "a--; } while (a);"),
        ("do { if (b) { b = 0; continue; }", "a--; } while (a);"),
        ("for (Y = 0; Y != 2; Y++) { if (b) break;", "}"),
        ("for (Y = 0; Y != 2; Y++) { if (b) continue;", "}"),
        ("if (a) { if (b) {", "} r = 2; }"),
        ("if (a) { r = 2; if (b) {", "} }"),
        ("do { if (a) { if (b) break;", "} r = 1; r = 1; r = 1; a--; } while (a);"),
    ];
    // inline functions copied into the caller: inline assembly with a declared size, a jump over the tail
    let decl = "unsigned char a, b, c, r; short s; unsigned char arr[4]; short sarr[2];\ninline void ib() { asm(\".byte $EA,$EA,$EA,$EA,$EA,$EA\", 6); }\ninline void ij() { if (c) return; c = 3; }\n";
    let decl_signed = "signed char a, b, c, r; short s; unsigned char arr[4]; short sarr[2];\ninline void ib() { asm(\".byte $EA,$EA,$EA,$EA,$EA,$EA\", 6); }\ninline void ij() { if (c) return; c = 3; }\n";
    let small: Vec<(&str, &[i32])> = vec![("a", &[0, 1, 2]), ("b", &[0, 1, 2]), ("c", &[0, 3]), ("r", &[0]), ("X", &[0, 1]), ("Y", &[0, 1]), ("s", &[0, 0xff])];
    for (pre, post) in &templates {
        for (st, sz) in &stmts {
            let kmin = 108 / sz;
            let kmax = 136 / sz + 1;
            let step = if tier == Tier::Quick { ((kmax - kmin) / 6).max(1) } else { 1 };
            let mut k = kmin;
            while k <= kmax {
                let mut body = String::new();
                for _ in 0..k {
                    body.push_str(st);
                    body.push(' ');
                }
                for d in [decl, decl_signed] {
                    if d == decl_signed && !(pre.contains('<') || pre.contains('>') || post.contains('<')) {
                        continue;
                    }
                    let src = format!("{}void main()\n{{\n{} {} {}\n}}\n", d, pre, body, post);
                    v.push(case_from_text("F8.big", &src, &small, vec!["big"], 40));
                }
                k += step;
            }
        }
    }
    v
}

// ---------------------------------------------------------------------------------------
// F9.mem: operations on variables placed in every memory class

pub const F9_STMTS: [&str; 40] = [
    "a = 1;", "a = b;", "r = a + b;", "a += b;", "a -= 1;", "a &= b;", "a |= 0x80;", "a ^= b;", "a++;", "a--;", "++a;", "a <<= 1;", "a >>= 1;", "r = a << 2;", "r = a >> 1;",
    "X = a;", "a = X;", "Y = a;", "a = Y;", "if (a) r = 1;", "if (a == b) r = 1;", "if (a < b) r = 1; else r = 2;", "r = arr[X];", "arr[X] = a;", "arr[Y] = a;", "r = arr[Y];", "arr[1] = a;",
    "r = arr[2];", "arr[X]++;", "arr[X] += a;", "s = 0x1234;", "s++;", "s--;", "s += a;", "s += t;", "s <<= 1;", "s >>= 1;", "r = s >> 8;", "r = s;", "if (s == t) r = 1;",
];

pub const F9_STMTS2: [&str; 44] = [
    "p++;", "p--;", "++p;", "--p;", "p = arr;", "p += 2;",
    "sarr[X] = s;", "s = sarr[X];", "sarr[Y] = s;", "s = sarr[Y];", "sarr[1] = t;", "sarr[X]++;", "s = sarr[Y] + 1;", "sarr[Y] += a;",
    "t = s;", "s = t + 1;", "s = a;", "s -= t;", "s &= 0xff;", "s |= t;", "if (s < t) r = 1; else r = 2;", "if (s) r = 1;", "r = g(a);", "h(a, b);", "load(a);", "store(a);", "a = arr[X] + b;", "arr[X] = arr[Y];",
    "sarr[Y] <<= 1;", "sarr[X] >>= 1;", "sarr[X] <<= 1;", "X = a; a = 3; X = a;", "b = a; a = Y; r = a;", "Y = s; s = 3; Y = s;",
    "p = arr; r = p[Y];", "p = arr; p[Y] = a;",
    // a register compared with a variable (CPX / CPY read their operand), registers loaded and stored directly
    "if (X == a) r = 1; else r = 2;", "if (Y < b) r = 1; else r = 2;", "if (X != arr[1]) r = 3;", "if (Y >= a) r = 4;", "r = X == a;", "X = arr[1]; arr[2] = X;", "Y = b; b = Y;", "if (a == X) r = 1;",
];

/// (name, extra option, declaration text)
pub fn f9_placements() -> Vec<(&'static str, Vec<&'static str>, String)> {
    let mut v = Vec::new();
    let fns = "char g(char v) { return v + 1; }\nvoid h(char v, char w) { r = v + w; }\n";
    // which of a, b, r, s, t, arr get the qualifier: masks over 6 variables (selected subsets)
    let names = ["a", "b", "r", "s", "t", "arr", "sarr", "p"];
    let masks: Vec<u32> = vec![0b00000000, 0b00000001, 0b00000010, 0b00000100, 0b00000011, 0b00001000, 0b00011000, 0b00100000, 0b00100001, 0b11111111, 0b00011001, 0b00000101, 0b01000000, 0b01001000, 0b10000000, 0b10100000];
    for (scheme, opt, q) in [("zp", vec![], ""), ("superchip", vec![], "superchip"), ("3E", vec!["-D__3E__"], "bank1"), ("3EP", vec!["-D__3E_PLUS__"], "bank1")] {
        for m in &masks {
            if scheme == "zp" && *m != 0 {
                continue;
            }
            if scheme != "zp" && *m == 0 {
                continue;
            }
            let mut d = String::new();
            for (k, n) in names.iter().enumerate() {
                let qq = if (m >> k) & 1 == 1 { format!("{} ", q) } else { String::new() };
                match *n {
                    "s" | "t" => d.push_str(&format!("{}short {};\n", qq, n)),
                    "arr" => d.push_str(&format!("{}unsigned char arr[4];\n", qq)),
                    "sarr" => d.push_str(&format!("{}short sarr[4];\n", qq)),
                    "p" => d.push_str(&format!("{}char *p;\n", qq)),
                    _ => d.push_str(&format!("{}unsigned char {};\n", qq, n)),
                }
            }
            d.push_str(fns);
            v.push((scheme, opt.clone(), d));
        }
    }
    v
}

pub fn f9(tier: Tier) -> Vec<SemCase> {
    let mut v = Vec::new();
    let small: Vec<(&str, &[i32])> = vec![("a", &[0, 1, 0x7f, 0x80, 0xff]), ("b", &[0, 1, 0xff]), ("r", &[0]), ("X", &[0, 1, 2]), ("Y", &[0, 1, 3]), ("s", &[0, 0xff, 0x100, 0x7fff, 0xffff]), ("t", &[0, 1, 0x100, 0xffff])];
    let mut stmts: Vec<&str> = F9_STMTS.to_vec();
    stmts.extend_from_slice(&F9_STMTS2);
    for (scheme, opt, decl) in f9_placements() {
        let mut bodies: Vec<String> = stmts.iter().map(|s| s.to_string()).collect();
        if tier == Tier::Thorough {
            // pairs of statements (second from a core subset)
            for s1 in &stmts {
                for s2 in ["a = b;", "r = a + b;", "a++;", "arr[X] = a;", "s++;", "s += a;", "if (a) r = 1;"] {
                    // keep subscripts in bounds: no index register loaded from an unconstrained variable
                    if (*s1 == "X = a;" || *s1 == "Y = a;") && s2.contains("arr[") {
                        continue;
                    }
                    bodies.push(format!("{} {}", s1, s2));
                }
            }
        }
        for b in &bodies {
            let src = format!("{}void main()\n{{\n{}\n}}\n", decl, b);
            let mut c = case_from_text("F9.mem", &src, &small, vec!["mem"], 200);
            c.family = format!("F9.mem.{}", scheme);
            c.extra_opts = opt.iter().map(|s| s.to_string()).collect();
            v.push(c);
        }
    }
    v
}

// ---------------------------------------------------------------------------------------
// label stress programs (C13): repeated and nested inlining, goto labels, long branches inside inlined code

pub fn f_labels() -> Vec<SemCase> {
    let mut v = Vec::new();
    let small: Vec<(&str, &[i32])> = vec![("a", &[0, 1, 3]), ("b", &[0, 2]), ("c", &[0]), ("r", &[0]), ("X", &[0, 1]), ("Y", &[0, 1])];
    let decl = "unsigned char a, b, c, r; short s; unsigned char arr[4];\n";
    let inl_bodies = [
        "inline void k() { if (a) c++; else c--; }",
        "inline void k() { while (a) { a--; c++; } }",
        "inline void k() { for (X = 0; X < 2; X++) { if (b) continue; c++; } }",
        "inline void k() { switch (a) { case 1: c = 1; break; case 2: c = 2; default: c++; } }",
        "inline char k() { if (a) return 1; if (b) return 2; return 3; }",
        "inline void k() { do { c++; a--; } while (a); }",
        "inline void k() { if (a && b || c) r++; }",
        "inline void k() { c = a ? b : 2; }",
    ];
    let callers = [
        "k();",
        "k(); k();",
        "k(); k(); k();",
        "if (b) k(); else k();",
        "while (b) { k(); b--; }",
        "for (Y = 0; Y < 2; Y++) k();",
    ];
    for ib in &inl_bodies {
        for cl in &callers {
            let call = if ib.contains("char k") { cl.replace("k();", "r = k();") } else { cl.to_string() };
            let src = format!("{}{}\nvoid main()\n{{\n{}\n}}\n", decl, ib, call);
            v.push(case_from_text("FL.inline", &src, &small, vec!["labels"], 60));
            // nested: an inline wrapper calling the inline function
            let src2 = format!("{}{}\ninline void w() {{ {} if (b) r++; }}\nvoid main()\n{{\nw(); w();\n}}\n", decl, ib, if ib.contains("char k") { "r = k();" } else { "k();" });
            v.push(case_from_text("FL.nested", &src2, &small, vec!["labels"], 60));
        }
    }
    // goto labels, including names that look like generated ones
    for body in [
        "goto for1; r = 1; for1: r = 2;",
        "if (a) goto ifend1; r = 1; ifend1: r++;",
        "for (X = 0; X < 2; X++) { if (a) goto forend1; } forend1: r = X;",
        "while (a) { a--; if (b) goto whileend1; } whileend1: r = a;",
        "goto fix1; r = 1; fix1: r = 2;",
        "l1: a--; if (a) goto l1;",
        "goto endofinline1; r = 1; endofinline1: r = 2;",
    ] {
        let src = format!("{}void main()\n{{\n{}\n}}\n", decl, body);
        v.push(case_from_text("FL.goto", &src, &small, vec!["labels"], 60));
    }
    // two functions using the same label names
    v.push(case_from_text("FL.goto", &format!("{}void q() {{ goto l1; c = 1; l1: c++; }}\nvoid main()\n{{\ngoto l1; r = 1; l1: q();\n}}\n", decl), &small, vec!["labels"], 60));
    // long branches inside inlined code (fix labels inside inline expansions, expanded twice)
    for n in [30usize, 34, 40] {
        let mut body = String::new();
        for _ in 0..n {
            body.push_str("c = c + 1; ");
        }
        let src = format!("{}inline void k() {{ if (a) {{ {} }} }}\nvoid main()\n{{\nk(); k();\n}}\n", decl, body);
        v.push(case_from_text("FL.biginline", &src, &small, vec!["labels"], 20));
        let src = format!("{}inline void k() {{ while (a) {{ {} a--; }} }}\nvoid main()\n{{\nk(); if (b) {{ {} }} k();\n}}\n", decl, body, body);
        v.push(case_from_text("FL.biginline", &src, &small, vec!["labels"], 20));
    }
    // several declarators in one declaration, each with its own memory class / size
    for src in [
        "char * const P = 0x280, * const Q = 0x3a;\nunsigned char r;\nvoid main()\n{\n*Q = 1; r = *Q; *P = r;\n}\n",
        "char * const Q = 0x3a, * const P = 0x280;\nunsigned char r;\nvoid main()\n{\n*Q = 1; r = *Q; *P = r;\n}\n",
        "const char k[2] = {3, 4}, m[3] = {5, 6, 7};\nunsigned char r, w[2];\nvoid main()\n{\nw[X] = k[X]; r = m[Y];\n}\n",
        "unsigned char a, arr[4], b;\nshort s, sarr[2], t;\nvoid main()\n{\narr[X] = a; b = arr[Y]; sarr[X] = s; t = sarr[Y];\n}\n",
    ] {
        v.push(case_from_text("FL.decl", src, &small, vec!["decl"], 20));
    }
    v
}
