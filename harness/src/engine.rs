//! Exploration engine: static sharding of a finite case space over worker processes,
//! crash/hang attribution, known-finding attribution, replay files and evidence output.

use serde_json::{json, Value};
use std::collections::{BTreeMap, BTreeSet, HashSet};
use std::io::Write;
use std::sync::atomic::{AtomicU64, Ordering};
use std::time::Instant;

#[derive(Clone, Copy, PartialEq, Eq, Debug)]
pub enum Tier {
    Quick,
    Thorough,
}

impl Tier {
    pub fn name(self) -> &'static str {
        match self {
            Tier::Quick => "quick",
            Tier::Thorough => "thorough",
        }
    }
    pub fn parse(s: &str) -> Option<Tier> {
        match s {
            "quick" => Some(Tier::Quick),
            "thorough" => Some(Tier::Thorough),
            _ => None,
        }
    }
}

#[derive(Clone, Debug)]
pub struct Failure {
    /// attribution key: "panic:<loc>", "case:<hash>", "coord:<...>", "hang:<...>"
    pub key: String,
    pub kind: String,
    pub detail: String,
}

#[derive(Clone, Debug)]
pub enum Status {
    Pass,
    Rejected,
    Skipped(String),
    Fail(Vec<Failure>),
}

#[derive(Clone, Debug)]
pub struct CaseOutcome {
    pub ident: String,
    pub status: Status,
    pub nontrivial: bool,
    pub evals: u64,
    pub counters: Vec<(String, u64)>,
    pub outcomes: Vec<u64>,
    pub sample: Value,
    /// model-checking style counts (states / transitions discovered by this case)
    pub states: u64,
    pub transitions: u64,
}

impl CaseOutcome {
    pub fn new(ident: String) -> CaseOutcome {
        CaseOutcome { ident, status: Status::Pass, nontrivial: false, evals: 0, counters: Vec::new(), outcomes: Vec::new(), sample: Value::Null, states: 0, transitions: 0 }
    }
    pub fn count(&mut self, k: &str, n: u64) {
        self.counters.push((k.to_string(), n));
    }
    pub fn fail(&mut self, key: String, kind: &str, detail: String) {
        let f = Failure { key, kind: kind.to_string(), detail };
        match &mut self.status {
            Status::Fail(v) => v.push(f),
            _ => self.status = Status::Fail(vec![f]),
        }
    }
}

pub fn hash64(s: &str) -> u64 {
    // FNV-1a, stable across runs and platforms
    let mut h: u64 = 0xcbf29ce484222325;
    for b in s.as_bytes() {
        h ^= *b as u64;
        h = h.wrapping_mul(0x100000001b3);
    }
    h
}

pub fn case_key(ident: &str) -> String {
    format!("case:{:016x}", hash64(ident))
}

pub trait Check: Sync {
    fn prop(&self) -> &'static str;
    fn level(&self) -> &'static str;
    fn rule(&self) -> String;
    fn assumptions(&self) -> Vec<String>;
    fn n_cases(&self, tier: Tier) -> usize;
    fn run_case(&self, tier: Tier, idx: usize) -> CaseOutcome;
    /// identity of a case without running it (used to name a case that crashes the process)
    fn case_ident(&self, _tier: Tier, idx: usize) -> String {
        format!("idx {}", idx)
    }
    /// per-case watchdog in seconds
    fn case_timeout_s(&self) -> u64 {
        20
    }
    /// bounds description for the evidence file
    fn bounds(&self, tier: Tier) -> Value;
    /// wall cap in seconds for the whole tier (evidence says exhaustive:false if hit)
    fn wall_cap_s(&self, tier: Tier) -> u64 {
        match tier {
            Tier::Quick => 300,
            Tier::Thorough => 3600,
        }
    }
    /// optional post-processing over merged counters (e.g. coverage requirements); returns failures
    fn finalize(&self, _tier: Tier, _merged: &Merged) -> Vec<Failure> {
        Vec::new()
    }
    /// levels where states/transitions are reported
    fn is_state_graph(&self) -> bool {
        false
    }
}

#[derive(Default, Debug)]
pub struct Merged {
    pub cases: u64,
    pub pass: u64,
    pub rejected: u64,
    pub skipped: u64,
    pub failed_cases: u64,
    pub evals: u64,
    pub states: u64,
    pub transitions: u64,
    pub counters: BTreeMap<String, u64>,
    pub skip_reasons: BTreeMap<String, u64>,
    pub nontrivial: HashSet<u64>,
    pub outcomes: HashSet<u64>,
    pub fails: Vec<(usize, String, Failure)>, // idx, ident, failure
    pub samples: Vec<Value>,
    pub completed: bool,
}

impl Merged {
    fn absorb(&mut self, idx: usize, o: CaseOutcome, want_sample: bool) {
        self.cases += 1;
        self.evals += o.evals.max(1);
        self.states += o.states;
        self.transitions += o.transitions;
        for (k, n) in o.counters {
            *self.counters.entry(k).or_insert(0) += n;
        }
        if o.nontrivial {
            self.nontrivial.insert(hash64(&o.ident));
        }
        for h in o.outcomes {
            if self.outcomes.len() < 2_000_000 {
                self.outcomes.insert(h);
            }
        }
        match o.status {
            Status::Pass => self.pass += 1,
            Status::Rejected => self.rejected += 1,
            Status::Skipped(r) => {
                self.skipped += 1;
                *self.skip_reasons.entry(r).or_insert(0) += 1;
            }
            Status::Fail(v) => {
                self.failed_cases += 1;
                for f in v {
                    self.fails.push((idx, o.ident.clone(), f));
                }
            }
        }
        if want_sample && !o.sample.is_null() {
            self.samples.push(o.sample);
        }
    }

    fn to_json(&self) -> Value {
        json!({
            "cases": self.cases, "pass": self.pass, "rejected": self.rejected, "skipped": self.skipped,
            "failed_cases": self.failed_cases, "evals": self.evals, "states": self.states, "transitions": self.transitions,
            "counters": self.counters, "skip_reasons": self.skip_reasons,
            "nontrivial": self.nontrivial.iter().collect::<Vec<_>>(),
            "outcomes": self.outcomes.iter().collect::<Vec<_>>(),
            "fails": self.fails.iter().map(|(i, id, f)| json!({"idx": i, "ident": id, "key": f.key, "kind": f.kind, "detail": f.detail})).collect::<Vec<_>>(),
            "samples": self.samples,
            "completed": self.completed,
        })
    }

    fn merge_json(&mut self, v: &Value) {
        self.cases += v["cases"].as_u64().unwrap_or(0);
        self.pass += v["pass"].as_u64().unwrap_or(0);
        self.rejected += v["rejected"].as_u64().unwrap_or(0);
        self.skipped += v["skipped"].as_u64().unwrap_or(0);
        self.failed_cases += v["failed_cases"].as_u64().unwrap_or(0);
        self.evals += v["evals"].as_u64().unwrap_or(0);
        self.states += v["states"].as_u64().unwrap_or(0);
        self.transitions += v["transitions"].as_u64().unwrap_or(0);
        if let Some(m) = v["counters"].as_object() {
            for (k, n) in m {
                *self.counters.entry(k.clone()).or_insert(0) += n.as_u64().unwrap_or(0);
            }
        }
        if let Some(m) = v["skip_reasons"].as_object() {
            for (k, n) in m {
                *self.skip_reasons.entry(k.clone()).or_insert(0) += n.as_u64().unwrap_or(0);
            }
        }
        if let Some(a) = v["nontrivial"].as_array() {
            for x in a {
                self.nontrivial.insert(x.as_u64().unwrap_or(0));
            }
        }
        if let Some(a) = v["outcomes"].as_array() {
            for x in a {
                self.outcomes.insert(x.as_u64().unwrap_or(0));
            }
        }
        if let Some(a) = v["fails"].as_array() {
            for x in a {
                self.fails.push((
                    x["idx"].as_u64().unwrap_or(0) as usize,
                    x["ident"].as_str().unwrap_or("").to_string(),
                    Failure { key: x["key"].as_str().unwrap_or("").to_string(), kind: x["kind"].as_str().unwrap_or("").to_string(), detail: x["detail"].as_str().unwrap_or("").to_string() },
                ));
            }
        }
        if let Some(a) = v["samples"].as_array() {
            for x in a {
                self.samples.push(x.clone());
            }
        }
    }
}

static PROGRESS: AtomicU64 = AtomicU64::new(u64::MAX);
static PROGRESS_TICK: AtomicU64 = AtomicU64::new(0);

pub fn redirect_stdio_to_null() {
    unsafe {
        let fd = libc::open(b"/dev/null\0".as_ptr() as *const libc::c_char, libc::O_WRONLY);
        if fd >= 0 {
            libc::dup2(fd, 1);
            libc::dup2(fd, 2);
        }
    }
}

/// address-space limit for worker processes: a runaway allocation aborts the worker (attributed
/// to the case through the progress file) instead of exhausting the machine
pub fn limit_memory() {
    unsafe {
        let lim = libc::rlimit { rlim_cur: 6 << 30, rlim_max: 6 << 30 };
        libc::setrlimit(libc::RLIMIT_AS, &lim);
    }
}

/// watchdog thread: a case that does not finish within the timeout is a hang
pub fn start_watchdog(progress_path: String, timeout: u64) {
    std::thread::spawn(move || {
        let mut last = (u64::MAX, 0u64);
        let mut since = Instant::now();
        loop {
            std::thread::sleep(std::time::Duration::from_millis(200));
            let cur = (PROGRESS.load(Ordering::SeqCst), PROGRESS_TICK.load(Ordering::SeqCst));
            if cur != last {
                last = cur;
                since = Instant::now();
            } else if cur.0 != u64::MAX && since.elapsed().as_secs() >= timeout {
                let _ = std::fs::write(&progress_path, format!("hang {}", cur.0));
                unsafe { libc::_exit(97) };
            }
        }
    });
}

fn sample_wanted(idx: usize, n: usize, seed: u64) -> bool {
    if n == 0 {
        return false;
    }
    let r = (seed as usize) % n;
    idx == 0 || idx == n - 1 || idx == r || idx == (r + n / 2) % n || idx == n / 3
}

/// Worker: run cases idx ≡ shard (mod nshards), skipping `skip`; write result JSON to `out`.
pub fn worker(check: &dyn Check, tier: Tier, shard: usize, nshards: usize, skip: &BTreeSet<usize>, out: &str, seed: u64, deadline_s: u64) -> i32 {
    let n = check.n_cases(tier);
    let progress_path = format!("{}.progress", out);
    let timeout = check.case_timeout_s();
    limit_memory();
    start_watchdog(progress_path.clone(), timeout);
    redirect_stdio_to_null();
    let start = Instant::now();
    let mut m = Merged::default();
    m.completed = true;
    let mut idx = shard;
    while idx < n {
        if !skip.contains(&idx) {
            if start.elapsed().as_secs() >= deadline_s {
                m.completed = false;
                break;
            }
            PROGRESS.store(idx as u64, Ordering::SeqCst);
            PROGRESS_TICK.fetch_add(1, Ordering::SeqCst);
            let _ = std::fs::write(&progress_path, format!("at {}", idx));
            let o = check.run_case(tier, idx);
            m.absorb(idx, o, sample_wanted(idx, n, seed));
        }
        idx += nshards;
    }
    PROGRESS.store(u64::MAX, Ordering::SeqCst);
    let mut f = std::fs::File::create(out).expect("create worker output");
    f.write_all(serde_json::to_string(&m.to_json()).unwrap().as_bytes()).unwrap();
    let _ = std::fs::write(&progress_path, "done");
    0
}

pub struct KnownFinding {
    pub id: String,
    pub status: String,
    pub props: Vec<String>,
    pub what: String,
    pub keys: HashSet<String>,
    pub key_prefixes: Vec<String>,
}

pub fn load_known_findings(root: &str) -> Vec<KnownFinding> {
    let p = format!("{}/known_findings.json", root);
    let mut out = Vec::new();
    let txt = match std::fs::read_to_string(&p) {
        Ok(t) => t,
        Err(_) => return out,
    };
    let v: Value = serde_json::from_str(&txt).expect("known_findings.json is not valid JSON");
    for f in v["findings"].as_array().unwrap_or(&Vec::new()) {
        let mut keys = HashSet::new();
        let mut prefixes = Vec::new();
        if let Some(a) = f["keys"].as_array() {
            for k in a {
                keys.insert(k.as_str().unwrap_or("").to_string());
            }
        }
        if let Some(a) = f["key_prefixes"].as_array() {
            for k in a {
                prefixes.push(k.as_str().unwrap_or("").to_string());
            }
        }
        if let Some(file) = f["keys_file"].as_str() {
            if let Ok(t) = std::fs::read_to_string(format!("{}/{}", root, file)) {
                for l in t.lines() {
                    let l = l.trim();
                    if !l.is_empty() && !l.starts_with('#') {
                        keys.insert(l.to_string());
                    }
                }
            }
        }
        out.push(KnownFinding {
            id: f["id"].as_str().unwrap_or("").to_string(),
            status: f["status"].as_str().unwrap_or("known").to_string(),
            props: f["property"].as_array().map(|a| a.iter().map(|x| x.as_str().unwrap_or("").to_string()).collect()).unwrap_or_default(),
            what: f["what"].as_str().unwrap_or("").to_string(),
            keys,
            key_prefixes: prefixes,
        });
    }
    out
}

fn attribute<'a>(kfs: &'a [KnownFinding], prop: &str, key: &str) -> Option<&'a KnownFinding> {
    kfs.iter().find(|k| k.status == "known" && k.props.iter().any(|p| p == prop) && (k.keys.contains(key) || k.key_prefixes.iter().any(|p| key.starts_with(p.as_str()))))
}

pub struct RunResult {
    pub exit: i32,
}

/// Orchestrate a check: spawn workers, merge, attribute, write replays and evidence.
pub fn orchestrate(check: &dyn Check, tier: Tier, root: &str, jobs: usize, seed: u64) -> RunResult {
    let start = Instant::now();
    let prop = check.prop();
    let n = check.n_cases(tier);
    let scratch = format!("{}/scratch/run_{}_{}_{}", root, prop, tier.name(), std::process::id());
    let _ = std::fs::remove_dir_all(&scratch);
    std::fs::create_dir_all(&scratch).expect("scratch dir");
    let exe = std::env::current_exe().expect("current exe");
    let nshards = jobs.max(1).min(n.max(1));
    let deadline = check.wall_cap_s(tier);
    let mut merged = Merged::default();
    merged.completed = true;
    let mut machinery_errors: Vec<String> = Vec::new();
    let mut crash_fails: Vec<(usize, Failure)> = Vec::new();

    // per shard: run, and re-run with a skip list after each crash
    let mut skips: Vec<BTreeSet<usize>> = vec![BTreeSet::new(); nshards];
    let mut pending: Vec<usize> = (0..nshards).collect();
    let mut rounds = 0;
    while !pending.is_empty() {
        rounds += 1;
        if rounds > 200 {
            machinery_errors.push("too many worker restarts".into());
            break;
        }
        let remaining = deadline.saturating_sub(start.elapsed().as_secs()).max(5);
        let mut children = Vec::new();
        for &sh in &pending {
            let out = format!("{}/w{}.json", scratch, sh);
            let _ = std::fs::remove_file(&out);
            let skip_s: Vec<String> = skips[sh].iter().map(|x| x.to_string()).collect();
            let child = std::process::Command::new(&exe)
                .env("VCHECK_RUN_DIR", &scratch)
                .args(["worker", prop, tier.name(), &sh.to_string(), &nshards.to_string(), &out, &seed.to_string(), &remaining.to_string(), &skip_s.join(",")])
                .stdin(std::process::Stdio::null())
                .spawn()
                .expect("spawn worker");
            children.push((sh, out, child));
        }
        let mut next_pending = Vec::new();
        for (sh, out, mut child) in children {
            let st = child.wait().expect("wait worker");
            let progress = std::fs::read_to_string(format!("{}.progress", out)).unwrap_or_default();
            if st.success() && progress == "done" {
                match std::fs::read_to_string(&out).ok().and_then(|t| serde_json::from_str::<Value>(&t).ok()) {
                    Some(v) => {
                        if !v["completed"].as_bool().unwrap_or(false) {
                            merged.completed = false;
                        }
                        merged.merge_json(&v);
                    }
                    None => machinery_errors.push(format!("worker {} produced no readable output", sh)),
                }
            } else {
                // crash or hang: attribute to the case in the progress file
                let mut it = progress.split_whitespace();
                let what = it.next().unwrap_or("");
                let idx = it.next().and_then(|s| s.parse::<usize>().ok());
                match idx {
                    Some(idx) => {
                        let kind = if what == "hang" { "hang" } else { "abort" };
                        let code = st.code().map(|c| c.to_string()).unwrap_or_else(|| "signal".into());
                        crash_fails.push((idx, Failure { key: String::new(), kind: kind.into(), detail: format!("worker exit {}", code) }));
                        skips[sh].insert(idx);
                        next_pending.push(sh);
                    }
                    None => machinery_errors.push(format!("worker {} died without progress information ({:?})", sh, st)),
                }
            }
        }
        pending = next_pending;
    }
    // confirm crashes by solo re-run
    for (idx, f) in crash_fails {
        let out = format!("{}/solo{}.json", scratch, idx);
        let st = std::process::Command::new(&exe)
            .env("VCHECK_RUN_DIR", &scratch)
            .args(["solo", prop, tier.name(), &idx.to_string(), &out])
            .stdin(std::process::Stdio::null())
            .status();
        // exit 97 = watchdog (hang), a signal = abort; 0 / 1 = the case ran to its end (pass / ordinary failure)
        let ran_to_end = matches!(&st, Ok(s) if s.code() == Some(0) || s.code() == Some(1));
        let reproduced = match &st {
            Ok(s) => !s.success() && !ran_to_end,
            Err(_) => false,
        };
        if ran_to_end {
            // the worker stalled or died for a reason that is not the case (machine under load, memory
            // pressure): the case has now been run alone and its verdict is merged like any other
            match std::fs::read_to_string(&out).ok().and_then(|t| serde_json::from_str::<Value>(&t).ok()) {
                Some(v) => {
                    merged.merge_json(&v);
                    *merged.counters.entry(format!("worker {} on a case that runs to its end alone (re-run alone and counted)", f.kind)).or_insert(0) += 1;
                }
                None => machinery_errors.push(format!("case {} stalled a worker ({}) and its solo re-run left no result", idx, f.kind)),
            }
        } else if reproduced {
            let ident = std::fs::read_to_string(format!("{}.ident", out)).unwrap_or_else(|_| format!("idx {}", idx));
            let key = format!("{}:{}", f.kind, case_key(&ident));
            merged.cases += 1;
            merged.failed_cases += 1;
            merged.fails.push((idx, ident, Failure { key, kind: f.kind.clone(), detail: f.detail.clone() }));
        } else {
            machinery_errors.push(format!("case {} crashed a worker ({}) but did not reproduce alone", idx, f.kind));
        }
    }
    let extra = check.finalize(tier, &merged);
    for f in extra {
        merged.fails.push((usize::MAX, "finalize".into(), f));
    }

    // attribution
    let kfs = load_known_findings(root);
    let mut known_hits: BTreeMap<String, (String, u64)> = BTreeMap::new();
    let mut violations: Vec<(usize, String, Failure)> = Vec::new();
    for (idx, ident, f) in &merged.fails {
        match attribute(&kfs, prop, &f.key) {
            Some(k) => {
                let e = known_hits.entry(k.id.clone()).or_insert((k.what.clone(), 0));
                e.1 += 1;
            }
            None => violations.push((*idx, ident.clone(), f.clone())),
        }
    }
    for (id, (what, cnt)) in &known_hits {
        println!("KNOWN-FINDING: property={} {} {} ({} cases)", prop, id, what, cnt);
    }
    if let Ok(path) = std::env::var("VCHECK_DUMP_FAILS") {
        let mut f = std::fs::File::create(&path).expect("dump file");
        for (idx, ident, fl) in &merged.fails {
            let known = attribute(&kfs, prop, &fl.key).map(|k| k.id.clone());
            let v = json!({"idx": idx, "ident": ident, "key": fl.key, "kind": fl.kind, "detail": fl.detail, "known": known});
            writeln!(f, "{}", serde_json::to_string(&v).unwrap()).unwrap();
        }
    }
    // replays
    let replay_dir = format!("{}/replays/{}", root, prop);
    let mut printed = 0;
    if !violations.is_empty() {
        std::fs::create_dir_all(&replay_dir).ok();
    }
    let mut seen_keys: BTreeMap<String, u64> = BTreeMap::new();
    for (idx, ident, f) in &violations {
        *seen_keys.entry(f.key.clone()).or_insert(0) += 1;
        if printed < 40 {
            let h = hash64(&format!("{}{}{}", ident, f.key, f.kind));
            let path = format!("{}/{:016x}.json", replay_dir, h);
            let v = json!({"property": prop, "tier": tier.name(), "idx": idx, "ident": ident, "key": f.key, "kind": f.kind, "detail": f.detail});
            let _ = std::fs::write(&path, serde_json::to_string_pretty(&v).unwrap());
            println!("VIOLATION property={} replay={}", prop, path);
            println!("  kind={} key={} :: {}", f.kind, f.key, f.detail.lines().next().unwrap_or(""));
            printed += 1;
        }
    }
    if violations.len() > printed {
        println!("... and {} more violations ({} distinct keys)", violations.len() - printed, seen_keys.len());
    }
    // evidence
    let wall = start.elapsed().as_secs_f64();
    let exhaustive = merged.completed && machinery_errors.is_empty() && merged.cases as usize >= n;
    let mut samples = merged.samples.clone();
    samples.truncate(8);
    if samples.is_empty() {
        samples.push(json!({"note": "no sample captured"}));
    }
    let mut cov = json!({
        "evaluations": merged.evals,
        "distinct_nontrivial": merged.nontrivial.len(),
        "rule": check.rule(),
        "samples": samples,
        "programs": merged.cases,
        "cases_enumerated": n,
        "cases_run": merged.cases,
        "accepted_pass": merged.pass,
        "rejected_by_compiler": merged.rejected,
        "skipped": merged.skipped,
        "skip_reasons": merged.skip_reasons,
        "failed_cases": merged.failed_cases,
        "distinct_outcomes": merged.outcomes.len(),
        "counters": merged.counters,
        "bounds": check.bounds(tier),
        "exhaustive": exhaustive,
        "known_findings_hit": known_hits.iter().map(|(k, v)| json!({"id": k, "what": v.0, "cases": v.1})).collect::<Vec<_>>(),
        "machinery_errors": machinery_errors,
        "workers": nshards,
    });
    if check.is_state_graph() {
        cov["states"] = json!(merged.states);
        cov["transitions"] = json!(merged.transitions);
        cov["traces_validated_against_impl"] = json!(merged.transitions);
    }
    let ev = json!({
        "property_id": prop,
        "tier": tier.name(),
        "seed": seed,
        "level": check.level(),
        "coverage": cov,
        "assumptions": check.assumptions(),
        "wall_s": wall,
        "violations": violations.len(),
    });
    std::fs::create_dir_all(format!("{}/evidence", root)).ok();
    std::fs::write(format!("{}/evidence/{}.json", root, prop), serde_json::to_string_pretty(&ev).unwrap()).expect("write evidence");
    let _ = std::fs::remove_dir_all(&scratch);
    println!(
        "{} {}: cases={} pass={} rejected={} skipped={} failed={} known={} violations={} evals={} nontrivial={} outcomes={} exhaustive={} wall={:.1}s",
        prop,
        tier.name(),
        merged.cases,
        merged.pass,
        merged.rejected,
        merged.skipped,
        merged.failed_cases,
        known_hits.values().map(|v| v.1).sum::<u64>(),
        violations.len(),
        merged.evals,
        merged.nontrivial.len(),
        merged.outcomes.len(),
        exhaustive,
        wall
    );
    if !machinery_errors.is_empty() {
        for e in &machinery_errors {
            println!("MACHINERY-ERROR: {}", e);
        }
        return RunResult { exit: 2 };
    }
    if !exhaustive {
        println!("CAPPED: the wall cap of the tier was reached after {} of {} cases; the verdict covers that prefix only (not a violation; the evidence says exhaustive=false)", merged.cases, n);
    }
    RunResult { exit: if violations.is_empty() { 0 } else { 1 } }
}

/// Run one case alone (used to confirm crashes and for replay); exit code 0 = pass/known shape, 1 = fail
pub fn solo(check: &dyn Check, tier: Tier, idx: usize, out: Option<&str>, quiet: bool) -> i32 {
    if quiet {
        redirect_stdio_to_null();
        limit_memory();
        PROGRESS.store(idx as u64, Ordering::SeqCst);
        start_watchdog(format!("{}.progress", out.unwrap_or("/dev/null")), check.case_timeout_s());
    }
    // identity first (cheap generators), so that a crash can still be named
    if let Some(out) = out {
        let _ = std::fs::write(format!("{}.ident", out), check.case_ident(tier, idx));
    }
    let o = check.run_case(tier, idx);
    if let (true, Some(out)) = (quiet, out) {
        // the verdict of the case, in the format of a worker: a case that stalled a worker but runs
        // to its end here is counted with this verdict
        let mut m = Merged::default();
        m.completed = true;
        m.absorb(idx, o.clone(), false);
        let _ = std::fs::write(out, serde_json::to_string(&m.to_json()).unwrap());
    }
    match &o.status {
        Status::Fail(v) => {
            if !quiet {
                println!("case {} FAIL ident={}", idx, o.ident);
                for f in v {
                    println!("  kind={} key={}\n{}", f.kind, f.key, f.detail);
                }
            }
            1
        }
        s => {
            if !quiet {
                println!("case {} {:?} ident={}", idx, s, o.ident);
                println!("sample: {}", serde_json::to_string_pretty(&o.sample).unwrap_or_default());
            }
            0
        }
    }
}

/// Scratch directory of the current run (removed by the orchestrator when the run ends)
pub fn run_dir() -> String {
    let d = std::env::var("VCHECK_RUN_DIR").unwrap_or_else(|_| format!("/verif/scratch/solo_{}", std::process::id()));
    std::fs::create_dir_all(&d).ok();
    d
}
