//! The harness's own AST for the C subset, and a pretty printer that emits the minimum
//! parentheses C's grammar requires (so the subject's Pratt tables are checked against C).

#[derive(Clone, Copy, PartialEq, Eq, Hash, Debug, PartialOrd, Ord)]
pub enum Ty {
    U8,
    S8,
    I16,
    U16,
}

impl Ty {
    pub fn bits(self) -> u32 {
        match self {
            Ty::U8 | Ty::S8 => 8,
            _ => 16,
        }
    }
    pub fn signed(self) -> bool {
        matches!(self, Ty::S8 | Ty::I16)
    }
    pub fn cname(self) -> &'static str {
        match self {
            Ty::U8 => "unsigned char",
            Ty::S8 => "signed char",
            Ty::I16 => "short",
            Ty::U16 => "unsigned short",
        }
    }
}

#[derive(Clone, Copy, PartialEq, Eq, Hash, Debug)]
pub enum UnOp {
    Neg,
    BNot,
    LNot,
}

#[derive(Clone, Copy, PartialEq, Eq, Hash, Debug)]
pub enum BinOp {
    Mul,
    Div,
    Add,
    Sub,
    Shl,
    Shr,
    Lt,
    Le,
    Gt,
    Ge,
    Eq,
    Ne,
    And,
    Xor,
    Or,
    LAnd,
    LOr,
}

impl BinOp {
    pub fn sym(self) -> &'static str {
        match self {
            BinOp::Mul => "*",
            BinOp::Div => "/",
            BinOp::Add => "+",
            BinOp::Sub => "-",
            BinOp::Shl => "<<",
            BinOp::Shr => ">>",
            BinOp::Lt => "<",
            BinOp::Le => "<=",
            BinOp::Gt => ">",
            BinOp::Ge => ">=",
            BinOp::Eq => "==",
            BinOp::Ne => "!=",
            BinOp::And => "&",
            BinOp::Xor => "^",
            BinOp::Or => "|",
            BinOp::LAnd => "&&",
            BinOp::LOr => "||",
        }
    }
    /// C precedence (higher binds tighter)
    pub fn prec(self) -> u8 {
        match self {
            BinOp::Mul | BinOp::Div => 13,
            BinOp::Add | BinOp::Sub => 12,
            BinOp::Shl | BinOp::Shr => 11,
            BinOp::Lt | BinOp::Le | BinOp::Gt | BinOp::Ge => 10,
            BinOp::Eq | BinOp::Ne => 9,
            BinOp::And => 8,
            BinOp::Xor => 7,
            BinOp::Or => 6,
            BinOp::LAnd => 5,
            BinOp::LOr => 4,
        }
    }
    pub fn is_cmp(self) -> bool {
        matches!(self, BinOp::Lt | BinOp::Le | BinOp::Gt | BinOp::Ge | BinOp::Eq | BinOp::Ne)
    }
    pub fn is_logic(self) -> bool {
        matches!(self, BinOp::LAnd | BinOp::LOr)
    }
}

#[derive(Clone, PartialEq, Eq, Hash, Debug)]
pub enum E {
    /// integer literal; bool = print in hex
    Lit(i32, bool),
    /// character constant 'c' given by its source spelling (without quotes) and value
    CharLit(String, i32),
    Var(String),
    Idx(String, Box<E>),
    Deref(String),
    AddrOf(String),
    Un(UnOp, Box<E>),
    Bin(BinOp, Box<E>, Box<E>),
    /// lhs (op)= rhs
    Asg(Option<BinOp>, Box<E>, Box<E>),
    Inc { pre: bool, inc: bool, e: Box<E> },
    Cond(Box<E>, Box<E>, Box<E>),
    Comma(Box<E>, Box<E>),
    Call(String, Vec<E>),
    /// sizeof(name) or sizeof(type text)
    Sizeof(String, i32),
    /// explicit (redundant) parentheses, used by layout/rewrite families
    Paren(Box<E>),
}

pub fn lit(v: i32) -> E {
    E::Lit(v, false)
}
pub fn var(s: &str) -> E {
    E::Var(s.to_string())
}
pub fn bin(op: BinOp, a: E, b: E) -> E {
    E::Bin(op, Box::new(a), Box::new(b))
}
pub fn un(op: UnOp, a: E) -> E {
    E::Un(op, Box::new(a))
}
pub fn asg(l: E, r: E) -> E {
    E::Asg(None, Box::new(l), Box::new(r))
}
pub fn opasg(op: BinOp, l: E, r: E) -> E {
    E::Asg(Some(op), Box::new(l), Box::new(r))
}
pub fn idx(a: &str, i: E) -> E {
    E::Idx(a.to_string(), Box::new(i))
}
pub fn cond(c: E, a: E, b: E) -> E {
    E::Cond(Box::new(c), Box::new(a), Box::new(b))
}
pub fn call(f: &str, args: Vec<E>) -> E {
    E::Call(f.to_string(), args)
}

#[derive(Clone, PartialEq, Eq, Hash, Debug)]
pub enum DeclKind {
    Scalar(Ty),
    /// element type, length (RAM array)
    Array(Ty, usize),
    /// const array in ROM with initialiser
    ConstArray(Ty, Vec<i32>),
    /// char *p
    Ptr,
    /// const char *name[] = {a, b, ...} (names of arrays)
    PtrArray(Vec<String>),
    /// char *const NAME = addr  (hardware register / fixed address)
    ConstAddr(i32),
    /// const <ty> NAME = value
    ConstVal(Ty, i32),
}

#[derive(Clone, PartialEq, Eq, Hash, Debug)]
pub struct Decl {
    pub name: String,
    pub kind: DeclKind,
    /// storage qualifier text printed before the type ("superchip", "bank1", ...), may be empty
    pub qual: String,
    /// initialiser for local scalars
    pub init: Option<E>,
}

impl Decl {
    pub fn scalar(name: &str, ty: Ty) -> Decl {
        Decl { name: name.into(), kind: DeclKind::Scalar(ty), qual: String::new(), init: None }
    }
    pub fn array(name: &str, ty: Ty, n: usize) -> Decl {
        Decl { name: name.into(), kind: DeclKind::Array(ty, n), qual: String::new(), init: None }
    }
    pub fn const_array(name: &str, ty: Ty, v: &[i32]) -> Decl {
        Decl { name: name.into(), kind: DeclKind::ConstArray(ty, v.to_vec()), qual: String::new(), init: None }
    }
    pub fn ptr(name: &str) -> Decl {
        Decl { name: name.into(), kind: DeclKind::Ptr, qual: String::new(), init: None }
    }
    pub fn with_qual(mut self, q: &str) -> Decl {
        self.qual = q.into();
        self
    }
    pub fn with_init(mut self, e: E) -> Decl {
        self.init = Some(e);
        self
    }
}

#[derive(Clone, PartialEq, Eq, Hash, Debug)]
pub struct Case {
    pub labels: Vec<i32>,
    pub is_default: bool,
    pub body: Vec<S>,
}

#[derive(Clone, PartialEq, Eq, Hash, Debug)]
pub enum S {
    Expr(E),
    Empty,
    If(E, Box<S>, Option<Box<S>>),
    While(E, Box<S>),
    DoWhile(Box<S>, E),
    For(Option<E>, Option<E>, Option<E>, Box<S>),
    Switch(E, Vec<Case>),
    Break,
    Continue,
    Return(Option<E>),
    Block(Vec<S>),
    Decl(Vec<Decl>),
    Goto(String),
    Label(String, Box<S>),
    Load(E),
    Store(E),
    Strobe(String),
    Csleep(i32),
    Asm(String, Option<u32>),
}

pub fn block(v: Vec<S>) -> S {
    S::Block(v)
}
pub fn sexpr(e: E) -> S {
    S::Expr(e)
}

#[derive(Clone, PartialEq, Eq, Hash, Debug)]
pub struct Func {
    pub name: String,
    pub ret: Option<Ty>, // None = void ; Some(U8) = char
    pub params: Vec<Decl>,
    pub body: Vec<S>,
    pub inline: bool,
    pub interrupt: bool,
    pub proto_first: bool, // emit a prototype before all functions
    pub qual: String,      // e.g. "bank1"
}

impl Func {
    pub fn new(name: &str, ret: Option<Ty>, params: Vec<Decl>, body: Vec<S>) -> Func {
        Func { name: name.into(), ret, params, body, inline: false, interrupt: false, proto_first: false, qual: String::new() }
    }
}

#[derive(Clone, PartialEq, Eq, Hash, Debug, Default)]
pub struct Program {
    pub globals: Vec<Decl>,
    pub funcs: Vec<Func>,
}

// ---------------------------------------------------------------------------------------
// printing

fn prec_of(e: &E) -> u8 {
    match e {
        E::Comma(..) => 1,
        E::Asg(..) => 2,
        E::Cond(..) => 3,
        E::Bin(op, ..) => op.prec(),
        E::Un(..) | E::Deref(_) | E::AddrOf(_) => 14,
        E::Inc { pre, .. } => {
            if *pre {
                14
            } else {
                15
            }
        }
        E::Lit(v, _) => {
            if *v < 0 {
                14
            } else {
                16
            }
        }
        _ => 16,
    }
}

pub fn print_expr(e: &E) -> String {
    let mut s = String::new();
    pe(e, 0, &mut s);
    s
}

fn pe(e: &E, min: u8, out: &mut String) {
    let p = prec_of(e);
    let need = p < min;
    if need {
        out.push('(');
    }
    match e {
        E::Lit(v, hex) => {
            if *v < 0 {
                out.push('-');
                if *hex {
                    out.push_str(&format!("0x{:x}", -(*v as i64)));
                } else {
                    out.push_str(&format!("{}", -(*v as i64)));
                }
            } else if *hex {
                out.push_str(&format!("0x{:x}", v));
            } else {
                out.push_str(&format!("{}", v));
            }
        }
        E::CharLit(sp, _) => {
            out.push('\'');
            out.push_str(sp);
            out.push('\'');
        }
        E::Var(n) => out.push_str(n),
        E::Idx(a, i) => {
            out.push_str(a);
            out.push('[');
            pe(i, 0, out);
            out.push(']');
        }
        E::Deref(n) => {
            out.push('*');
            out.push_str(n);
        }
        E::AddrOf(n) => {
            out.push('&');
            out.push_str(n);
        }
        E::Un(op, a) => {
            let c = match op {
                UnOp::Neg => '-',
                UnOp::BNot => '~',
                UnOp::LNot => '!',
            };
            out.push(c);
            // avoid "--" / "-" followed by a negative literal
            let mut tmp = String::new();
            pe(a, 14, &mut tmp);
            if c == '-' && tmp.starts_with('-') {
                out.push('(');
                out.push_str(&tmp);
                out.push(')');
            } else {
                out.push_str(&tmp);
            }
        }
        E::Bin(op, a, b) => {
            let p = op.prec();
            pe(a, p, out);
            out.push(' ');
            out.push_str(op.sym());
            out.push(' ');
            pe(b, p + 1, out);
        }
        E::Asg(op, l, r) => {
            pe(l, 14, out);
            out.push(' ');
            if let Some(o) = op {
                out.push_str(o.sym());
            }
            out.push_str("= ");
            pe(r, 2, out);
        }
        E::Inc { pre, inc, e } => {
            let t = if *inc { "++" } else { "--" };
            if *pre {
                out.push_str(t);
                pe(e, 14, out);
            } else {
                pe(e, 15, out);
                out.push_str(t);
            }
        }
        E::Cond(c, a, b) => {
            pe(c, 4, out);
            out.push_str(" ? ");
            pe(a, 2, out);
            out.push_str(" : ");
            pe(b, 3, out);
        }
        E::Comma(a, b) => {
            pe(a, 1, out);
            out.push_str(", ");
            pe(b, 2, out);
        }
        E::Call(f, args) => {
            out.push_str(f);
            out.push('(');
            for (i, a) in args.iter().enumerate() {
                if i > 0 {
                    out.push_str(", ");
                }
                pe(a, 2, out);
            }
            out.push(')');
        }
        E::Sizeof(n, _) => {
            out.push_str("sizeof(");
            out.push_str(n);
            out.push(')');
        }
        E::Paren(a) => {
            out.push('(');
            pe(a, 0, out);
            out.push(')');
        }
    }
    if need {
        out.push(')');
    }
}

fn print_decl(d: &Decl, global: bool, out: &mut String) {
    if !d.qual.is_empty() {
        out.push_str(&d.qual);
        out.push(' ');
    }
    match &d.kind {
        DeclKind::Scalar(t) => {
            out.push_str(&format!("{} {}", t.cname(), d.name));
            if let Some(i) = &d.init {
                out.push_str(" = ");
                pe(i, 2, out);
            }
        }
        DeclKind::Array(t, n) => out.push_str(&format!("{} {}[{}]", t.cname(), d.name, n)),
        DeclKind::ConstArray(t, v) => {
            out.push_str(&format!("const {} {}[{}] = {{", t.cname(), d.name, v.len()));
            for (i, x) in v.iter().enumerate() {
                if i > 0 {
                    out.push_str(", ");
                }
                if *x < 0 {
                    out.push_str(&format!("{}", x));
                } else {
                    out.push_str(&format!("0x{:x}", x));
                }
            }
            out.push('}');
        }
        DeclKind::Ptr => {
            out.push_str(&format!("char *{}", d.name));
            if let Some(i) = &d.init {
                out.push_str(" = ");
                pe(i, 2, out);
            }
        }
        DeclKind::PtrArray(v) => {
            out.push_str(&format!("const char *{}[{}] = {{{}}}", d.name, v.len(), v.join(", ")));
        }
        DeclKind::ConstAddr(a) => out.push_str(&format!("char *const {} = 0x{:x}", d.name, a)),
        DeclKind::ConstVal(t, v) => out.push_str(&format!("const {} {} = {}", t.cname(), d.name, v)),
    }
    let _ = global;
    out.push(';');
}

fn ind(n: usize, out: &mut String) {
    for _ in 0..n {
        out.push_str("  ");
    }
}

/// does the statement, printed without braces, end in an `if` that has no else (dangling-else hazard)?
fn ends_in_open_if(s: &S) -> bool {
    match s {
        S::If(_, _, None) => true,
        S::If(_, _, Some(b)) => ends_in_open_if(b),
        S::While(_, b) => ends_in_open_if(b),
        S::For(_, _, _, b) => ends_in_open_if(b),
        S::Label(_, st) => ends_in_open_if(st),
        _ => false,
    }
}

pub fn print_stmt(s: &S, lvl: usize, out: &mut String) {
    match s {
        S::Block(v) => {
            ind(lvl, out);
            out.push_str("{\n");
            for x in v {
                print_stmt(x, lvl + 1, out);
            }
            ind(lvl, out);
            out.push_str("}\n");
        }
        S::Label(l, st) => {
            ind(lvl, out);
            out.push_str(l);
            out.push_str(":\n");
            print_stmt(st, lvl, out);
        }
        _ => {
            ind(lvl, out);
            match s {
                S::Expr(e) => {
                    pe(e, 0, out);
                    out.push_str(";\n");
                }
                S::Empty => out.push_str(";\n"),
                S::If(c, a, b) => {
                    out.push_str("if (");
                    pe(c, 0, out);
                    out.push_str(")\n");
                    if b.is_some() && ends_in_open_if(a) {
                        // the else below would attach to the inner if: braces keep the tree's meaning
                        print_stmt(&S::Block(vec![(**a).clone()]), lvl + 1, out);
                    } else {
                        print_stmt(a, lvl + 1, out);
                    }
                    if let Some(b) = b {
                        ind(lvl, out);
                        out.push_str("else\n");
                        print_stmt(b, lvl + 1, out);
                    }
                }
                S::While(c, b) => {
                    out.push_str("while (");
                    pe(c, 0, out);
                    out.push_str(")\n");
                    print_stmt(b, lvl + 1, out);
                }
                S::DoWhile(b, c) => {
                    out.push_str("do\n");
                    print_stmt(b, lvl + 1, out);
                    ind(lvl, out);
                    out.push_str("while (");
                    pe(c, 0, out);
                    out.push_str(");\n");
                }
                S::For(i, c, u, b) => {
                    out.push_str("for (");
                    if let Some(i) = i {
                        pe(i, 0, out);
                    }
                    out.push_str("; ");
                    if let Some(c) = c {
                        pe(c, 0, out);
                    }
                    out.push_str("; ");
                    if let Some(u) = u {
                        pe(u, 0, out);
                    }
                    out.push_str(")\n");
                    print_stmt(b, lvl + 1, out);
                }
                S::Switch(e, cases) => {
                    out.push_str("switch (");
                    pe(e, 0, out);
                    out.push_str(") {\n");
                    for c in cases {
                        for l in &c.labels {
                            ind(lvl + 1, out);
                            out.push_str(&format!("case {}:\n", l));
                        }
                        if c.is_default {
                            ind(lvl + 1, out);
                            out.push_str("default:\n");
                        }
                        for st in &c.body {
                            print_stmt(st, lvl + 2, out);
                        }
                    }
                    ind(lvl, out);
                    out.push_str("}\n");
                }
                S::Break => out.push_str("break;\n"),
                S::Continue => out.push_str("continue;\n"),
                S::Return(e) => {
                    out.push_str("return");
                    if let Some(e) = e {
                        out.push(' ');
                        pe(e, 0, out);
                    }
                    out.push_str(";\n");
                }
                S::Decl(ds) => {
                    for (i, d) in ds.iter().enumerate() {
                        if i > 0 {
                            out.push(' ');
                        }
                        print_decl(d, false, out);
                    }
                    out.push('\n');
                }
                S::Goto(l) => out.push_str(&format!("goto {};\n", l)),
                S::Load(e) => {
                    out.push_str("load(");
                    pe(e, 0, out);
                    out.push_str(");\n");
                }
                S::Store(e) => {
                    out.push_str("store(");
                    pe(e, 0, out);
                    out.push_str(");\n");
                }
                S::Strobe(n) => out.push_str(&format!("strobe({});\n", n)),
                S::Csleep(n) => out.push_str(&format!("csleep({});\n", n)),
                S::Asm(t, sz) => match sz {
                    Some(n) => out.push_str(&format!("asm(\"{}\", {});\n", t, n)),
                    None => out.push_str(&format!("asm(\"{}\");\n", t)),
                },
                S::Block(_) | S::Label(..) => unreachable!(),
            }
        }
    }
}

fn print_func_head(f: &Func, out: &mut String) {
    if f.inline {
        out.push_str("inline ");
    }
    if !f.qual.is_empty() {
        out.push_str(&f.qual);
        out.push(' ');
    }
    match f.ret {
        None => out.push_str("void "),
        Some(_) => out.push_str("char "),
    }
    if f.interrupt {
        out.push_str("interrupt ");
    }
    out.push_str(&f.name);
    out.push('(');
    for (i, p) in f.params.iter().enumerate() {
        if i > 0 {
            out.push_str(", ");
        }
        match &p.kind {
            DeclKind::Scalar(t) => out.push_str(&format!("{} {}", t.cname(), p.name)),
            DeclKind::Ptr => out.push_str(&format!("char *{}", p.name)),
            _ => panic!("unsupported parameter kind"),
        }
    }
    out.push(')');
}

pub fn print_program(p: &Program) -> String {
    let mut out = String::new();
    for d in &p.globals {
        print_decl(d, true, &mut out);
        out.push('\n');
    }
    for f in &p.funcs {
        if f.proto_first {
            print_func_head(f, &mut out);
            out.push_str(";\n");
        }
    }
    for f in &p.funcs {
        print_func_head(f, &mut out);
        out.push_str("\n{\n");
        for s in &f.body {
            print_stmt(s, 1, &mut out);
        }
        out.push_str("}\n");
    }
    out
}

/// Collect asm() statements (text -> declared size or default 3)
pub fn collect_asm(p: &Program, out: &mut std::collections::HashMap<String, u32>) {
    fn walk(s: &S, out: &mut std::collections::HashMap<String, u32>) {
        match s {
            S::Asm(t, sz) => {
                out.insert(t.trim().to_string(), sz.unwrap_or(3));
            }
            S::If(_, a, b) => {
                walk(a, out);
                if let Some(b) = b {
                    walk(b, out);
                }
            }
            S::While(_, b) | S::DoWhile(b, _) | S::For(_, _, _, b) | S::Label(_, b) => walk(b, out),
            S::Switch(_, cs) => {
                for c in cs {
                    for s in &c.body {
                        walk(s, out);
                    }
                }
            }
            S::Block(v) => {
                for s in v {
                    walk(s, out);
                }
            }
            _ => {}
        }
    }
    for f in &p.funcs {
        for s in &f.body {
            walk(s, out);
        }
    }
}
