//! Families added after the fourth round of seeded changes and the defects reported with it:
//! F2.callflags — a value returned by a function (whose last instructions leave N/Z describing
//!                something else) used in a zero test, a comparison, a ?: or a loop condition;
//! F1.condval   — a condition used as a value ('!b', 'b == c', 'b && c', 'b ? 3 : 4') as the second
//!                operand of arithmetic whose first operand is already in A;
//! F2.regflags  — X/Y set to a constant, arithmetic on the register value, the same constant set
//!                again, then a zero test of the register (what the optimiser believes the flags hold);
//! F11.dir      — whole directed programs (one per defect found outside the enumerated families).

use crate::gen2::{case_from_text, D0S_TEXT, D0_TEXT};
use crate::sem::SemCase;

pub const CALLEES: [&str; 8] = [
    "char f() { return c++; }",
    "char f() { return c--; }",
    "char f() { c++; return c; }",
    "char f() { X = 0; return c; }",
    "char f() { return c; }",
    "inline char f() { return c++; }",
    "char f() { b = c; c = 0; return b; }",
    "char f() { if (c) { c--; return 1; } return 0; }",
];
pub const CALL_CONDS: [&str; 12] = ["f()", "!f()", "f() == 0", "f() != 0", "f() == 1", "f() < 2", "f() && a", "a || f()", "(f() & 1) == 0", "f() >= 0xff", "0 == f()", "f() != a"];
pub const CALL_TEMPLATES: [&str; 6] = [
    "if ({C}) r = 1; else r = 2;",
    "r = ({C}) ? 4 : 5;",
    "while ({C}) { r++; if (r == 3) break; }",
    "do { r++; } while (({C}) && r < 3);",
    "r = f(); if (r) b = 1; else b = 2;",
    "a = f() + 1; if (a) r = 1; else r = 2;",
];

pub fn f2_callflags() -> Vec<SemCase> {
    let small: Vec<(&str, &[i32])> = vec![("a", &[0, 1, 0xff]), ("b", &[0, 5]), ("c", &[0, 1, 2, 0xff]), ("r", &[0]), ("X", &[0, 1]), ("Y", &[0, 1])];
    let mut v = Vec::new();
    for d in [D0_TEXT, D0S_TEXT] {
        for callee in CALLEES {
            for t in CALL_TEMPLATES {
                for c in CALL_CONDS {
                    if !t.contains("{C}") && c != CALL_CONDS[0] {
                        continue;
                    }
                    let body = t.replace("{C}", c);
                    let src = format!("{}{}\nvoid main()\n{{\n{}\n}}\n", d, callee, body);
                    v.push(case_from_text("F2.callflags", &src, &small, vec!["callflags"], 300));
                }
            }
        }
    }
    v
}

pub const CONDVAL_L: [&str; 5] = ["a + 1", "a & b", "a - b", "arr[X] | 1", "a << 1"];
pub const CONDVAL_OP: [&str; 5] = ["+", "-", "&", "|", "^"];
pub const CONDVAL_R: [&str; 12] = ["!b", "(b == c)", "(b < c)", "(b && c)", "(b || c)", "(b ? 3 : 4)", "!(b == c)", "(b != 0)", "!X", "(Y == 1)", "(b >= c ? a : 2)", "!arr[Y]"];

pub fn f1_condval() -> Vec<SemCase> {
    let small: Vec<(&str, &[i32])> = vec![("a", &[0, 1, 3, 0x80, 0xff]), ("b", &[0, 1, 2, 0xff]), ("c", &[0, 1, 2]), ("r", &[0]), ("X", &[0, 1]), ("Y", &[0, 1])];
    let mut v = Vec::new();
    for d in [D0_TEXT, D0S_TEXT] {
        for l in CONDVAL_L {
            for op in CONDVAL_OP {
                for r in CONDVAL_R {
                    for sink in ["r = {};", "if ({}) r = 1; else r = 2;", "X = {}; r = X;"] {
                        if d == D0S_TEXT && sink != "r = {};" {
                            continue;
                        }
                        let e1 = format!("({}) {} {}", l, op, r);
                        let body = sink.replace("{}", &e1);
                        let src = format!("{}void main()\n{{\n{}\n}}\n", d, body);
                        v.push(case_from_text("F1.condval", &src, &small, vec!["condval"], 300));
                        if sink == "r = {};" {
                            let e2 = format!("{} {} ({})", r, op, l);
                            let src = format!("{}void main()\n{{\n{}\n}}\n", d, sink.replace("{}", &e2));
                            v.push(case_from_text("F1.condval", &src, &small, vec!["condval"], 300));
                        }
                    }
                }
            }
        }
    }
    v
}

pub fn f2_regflags() -> Vec<SemCase> {
    let small: Vec<(&str, &[i32])> = vec![("a", &[0, 1, 0xfe, 0xff]), ("b", &[0, 1, 0xff]), ("c", &[0, 7]), ("r", &[0]), ("X", &[0, 1]), ("Y", &[0, 1]), ("s", &[0, 0x100, 0x101, 0xffff])];
    let sets = ["{R} = 0;", "{R} = 1;", "{R} = a;", "{R} = arr[1];"];
    let mids = [
        "b = {R} + 2;", "b = {R} - 1;", "b = {R} & 2;", "b = {R} | 2;", "b = {R} ^ 1;", "b = {R} + a;", "b = a - {R};", "b = {R};", "b = {R} << 1;", "b = {R} >> 1;",
        "b = a; b += {R};", "s = {R} + 2;", "b = {R} + 2; c = b;", "b = f() + {R};", "c = {R} == 1;", "b = -a;", "b = ~a;", "b = a + c;", "arr[0] = a & c;", "b = (a + 1) + !c;",
    ];
    let tests = ["if ({R}) r = 1; else r = 2;", "if (!{R}) r = 1; else r = 2;", "r = {R} ? 3 : 4;", "while ({R}) { r++; {R}--; }", "if ({R} == 0) r = 1; else r = 2;", "b = {R}; if (b) r = 1; else r = 2;"];
    let mut v = Vec::new();
    for reg in ["X", "Y"] {
        for s1 in sets {
            for m in mids {
                for t in tests {
                    // the register is set, used in arithmetic, set again to the same thing, then tested
                    let body = format!("{} {} {} {}", s1, m, s1, t).replace("{R}", reg);
                    let src = format!("{}char f() {{ return c; }}\nvoid main()\n{{\n{}\n}}\n", D0_TEXT, body);
                    v.push(case_from_text("F2.regflags", &src, &small, vec!["regflags"], 300));
                }
            }
        }
    }
    v
}

/// (source, tags): whole programs, each the witness (or a neighbour) of a defect found outside the families
pub const DIRECTED: [&str; 30] = [
    "unsigned char * const P = 0xfe; unsigned char r;\nvoid main() { P[5] = 1; r = P[5]; }",
    "unsigned char * const P = 0xfe; unsigned char r;\nvoid main() { P[1] = 1; r = P[1]; P[2] = r; }",
    "unsigned char * const P = 0xf0; unsigned char r;\nvoid main() { P[15] = 1; P[16] = 2; r = P[15] + P[16]; }",
    "unsigned char * const P = 0xff; unsigned char r; short s;\nvoid main() { r = P[0]; r = P[1]; }",
    "unsigned char a, b; unsigned char r;\nvoid main() { switch (b & 3) { case 2: case 0: r = 1; break; default: r = 2; } }",
    "unsigned char a, b; unsigned char r;\nvoid main() { switch (b & 3) { case 1: case 2: case 0: r = 1; break; case 3: r = 3; } }",
    "unsigned char a, b; unsigned char r;\nvoid main() { switch (b + a) { case 2: r = 4; break; case 1: case 0: r = 1; break; default: r = 2; } }",
    "unsigned char a, b; unsigned char r; char f() { return b; }\nvoid main() { switch (f()) { case 2: case 0: r = 1; break; default: r = 2; } }",
    "unsigned char r; short s, n;\nvoid main() { n = 0; do { n++; if (n == 3) break; } while (--s); }",
    "unsigned char r; short s, n;\nvoid main() { n = 0; while (--s) { n++; if (n == 3) break; } }",
    "unsigned char r; short s;\nvoid main() { s--; if (s) r = 1; else r = 2; }",
    "unsigned char r; short s;\nvoid main() { --s; if (!s) r = 1; else r = 2; }",
    "unsigned char r; short s;\nvoid main() { s++; if (s) r = 1; else r = 2; }",
    "unsigned char r; short s;\nvoid main() { s -= 1; if (s == 0) r = 1; else r = 2; }",
    "unsigned char r; unsigned short u;\nvoid main() { u--; if (u) r = 1; else r = 2; }",
    "unsigned char r; char *p; unsigned char arr[4];\nvoid main() { p = arr; p--; if (p) r = 1; else r = 2; }",
    "unsigned char tab[4]; unsigned char a, b;\nvoid main() { X = tab[Y]; Y++; X = tab[Y]; a = b; }",
    "unsigned char tab[4]; unsigned char a, b;\nvoid main() { Y = tab[X]; X++; Y = tab[X]; a = b; }",
    "unsigned char tab[4]; unsigned char a, b;\nvoid main() { X = tab[Y]; Y--; X = tab[Y]; a = b; }",
    "unsigned char tab[4]; unsigned char a, b;\nvoid main() { a = tab[Y]; Y++; a = tab[Y]; }",
    "unsigned char tab[4]; unsigned char a, b;\nvoid main() { a = tab[X]; X++; b = tab[X]; }",
    "unsigned char i, k;\nvoid main() { X = 0; i = X + 2; X = 0; if (X) k = 1; }",
    "unsigned char i, k;\nvoid main() { Y = 0; i = Y | 2; Y = 0; if (Y) k = 1; else k = 2; }",
    "unsigned char x, r; char f() { return x++; }\nvoid main() { if (f() == 0) r = 1; else r = 2; }",
    "unsigned char a, b, c;\nvoid main() { c = (a + 1) + !b; }",
    "unsigned char a, b, c, d;\nvoid main() { c = (a + 1) + (b == d); d = (a & 3) - (b && c); }",
    "unsigned char a, b, c;\nvoid main() { c = (a + 1) + (b ? 3 : 4); if ((a + 1) + !b) c = 3; }",
    "unsigned char a, b, r; inline void f() { if (a) return; b = 3; }\nvoid main() { f(); r = b; f(); }",
    "short sa[4]; short t; unsigned char r;\nvoid main() { t = sa[Y]; r = sa[X]; }",
    "unsigned char a;\nvoid main() { a = 1; asm(\"; mark\", 0); a = 2; asm(\"NOP\", 1); }",
];

pub fn f11_directed() -> Vec<SemCase> {
    let small: Vec<(&str, &[i32])> = vec![
        ("a", &[0, 1, 2, 3, 0xff]),
        ("b", &[0, 1, 2, 3, 4, 0xff]),
        ("c", &[0, 1]),
        ("d", &[0, 1]),
        ("x", &[0, 1, 0xff]),
        ("X", &[0, 1, 2]),
        ("Y", &[0, 1, 2]),
        ("s", &[0, 1, 2, 0x100, 0x101, 0x201, 0xffff]),
        ("u", &[0, 1, 0x100, 0x101, 0xffff]),
    ];
    let mut v = Vec::new();
    for src in DIRECTED {
        let tags: Vec<&'static str> = if src.contains("asm(") { vec!["directed", "asm"] } else { vec!["directed"] };
        v.push(case_from_text("F11.dir", src, &small, tags, 600));
    }
    v
}

/// members of F11.dir the reference interpreter can judge (no inline assembly)
pub fn f11_ref() -> Vec<SemCase> {
    f11_directed().into_iter().filter(|c| !c.tags.contains(&"asm")).collect()
}

/// F0.pinned — the C programs of the repository's own generator tests (extracted by
/// tools/extract_pinned.py into data/pinned.txt), re-used as an executed corpus. Only the programs
/// the harness's own C front end can read become cases (the others are counted by `pinned_stats`).
pub const PINNED_TEXT: &str = include_str!("../data/pinned.txt");

pub fn pinned_programs() -> Vec<(String, String)> {
    let mut v: Vec<(String, String)> = Vec::new();
    for l in PINNED_TEXT.lines() {
        if let Some(n) = l.strip_prefix("%%%% ") {
            v.push((n.to_string(), String::new()));
        } else if let Some(last) = v.last_mut() {
            last.1.push_str(l);
            last.1.push('\n');
        }
    }
    v
}

pub fn f0_pinned() -> Vec<SemCase> {
    let mut v = Vec::new();
    for (_name, src) in pinned_programs() {
        if src.contains('#') {
            continue; // preprocessor lines: not in the harness grammar (covered by C07/C08)
        }
        let prog = match std::panic::catch_unwind(|| crate::cparse::parse_program(&src)) {
            Ok(Ok(p)) => p,
            _ => continue,
        };
        if !prog.funcs.iter().any(|f| f.name == "main") {
            continue;
        }
        let inputs = crate::sem::cap_inputs(crate::sem::derive_inputs(&prog, false), 400);
        let mut tags = crate::gen::program_tags(&prog);
        tags.push("pinned");
        v.push(SemCase { family: "F0.pinned".to_string(), prog, inputs, extra_opts: vec![], logged: vec![], tags });
    }
    v
}

/// members of F0.pinned the reference interpreter can judge (no inline assembly, no explicit accesses)
pub fn f0_pinned_ref() -> Vec<SemCase> {
    f0_pinned().into_iter().filter(|c| { let s = c.source(); !s.contains("asm(") && !s.contains("load(") && !s.contains("store(") && !s.contains("strobe(") && !s.contains("csleep(") && !s.contains("sizeof") }).collect()
}

/// F2.elseflags — what the generator believes the flags describe at the `else` label (and after the
/// construct) of a compound, possibly negated condition: the label is reached from the test of every
/// operand, so a test of one operand placed first in the else branch must load it again.
pub const ELSE_K: [&str; 12] = ["!(a || b)", "!(a && b)", "a || b", "a && b", "!(!a || b)", "!(a || b || c)", "!(a && (b || c))", "!a && !b", "!(a == 1 || b == 2)", "!(a == b && b)", "!(a || !b)", "!(X || b)"];
pub const ELSE_T: [&str; 8] = ["b", "a", "!b", "c", "b == 0", "b == 2", "a == 1", "X"];
pub const ELSE_TEMPLATES: [&str; 4] = [
    "if ({K}) { c = 2; } else { if ({T}) r = 1; else r = 2; }",
    "if ({K}) { if ({T}) r = 1; else r = 2; } else { c = 2; }",
    "while ({K}) { c = 2; a = 1; b = 1; X = 1; } if ({T}) r = 1; else r = 2;",
    "r = ({K}) ? 4 : (({T}) ? 1 : 2);",
];

pub fn f2_elseflags() -> Vec<SemCase> {
    let small: Vec<(&str, &[i32])> = vec![("a", &[0, 1, 2, 0xff]), ("b", &[0, 1, 2, 0x80]), ("c", &[0, 1]), ("r", &[0]), ("X", &[0, 1])];
    let mut v = Vec::new();
    for d in [D0_TEXT, D0S_TEXT] {
        for t in ELSE_TEMPLATES {
            for k in ELSE_K {
                for c in ELSE_T {
                    let body = t.replace("{K}", k).replace("{T}", c);
                    let src = format!("{}void main()\n{{\n{}\n}}\n", d, body);
                    v.push(case_from_text("F2.elseflags", &src, &small, vec!["elseflags"], 300));
                }
            }
        }
    }
    v
}
