//! A small, independent recursive-descent parser for the C subset (standard C precedence),
//! producing the harness AST. Used to author program templates as text and to bring the
//! repository's own test programs (family F0) under the executing oracles.

use crate::ast::*;

#[derive(Debug, Clone, PartialEq)]
enum Tk {
    Id(String),
    Num(i32, bool),
    Chr(String, i32),
    Str(String),
    P(&'static str),
    Eof,
}

const PUNCT: [&str; 47] = [
    "<<=", ">>=", "++", "--", "+=", "-=", "*=", "/=", "&=", "|=", "^=", "<<", ">>", "<=", ">=", "==", "!=", "&&", "||", "(", ")", "{", "}", "[", "]", ";", ",", ":", "?", "=", "+", "-", "*", "/", "%", "<", ">",
    "!", "~", "&", "|", "^", ".", "#", "@", "\\", "$",
];

fn lex(src: &str) -> Result<Vec<Tk>, String> {
    let cs: Vec<char> = src.chars().collect();
    let mut i = 0;
    let mut out = Vec::new();
    while i < cs.len() {
        let c = cs[i];
        if c.is_whitespace() {
            i += 1;
            continue;
        }
        if c == '/' && i + 1 < cs.len() && cs[i + 1] == '/' {
            while i < cs.len() && cs[i] != '\n' {
                i += 1;
            }
            continue;
        }
        if c == '/' && i + 1 < cs.len() && cs[i + 1] == '*' {
            i += 2;
            while i + 1 < cs.len() && !(cs[i] == '*' && cs[i + 1] == '/') {
                i += 1;
            }
            i += 2;
            continue;
        }
        if c.is_ascii_alphabetic() || c == '_' {
            let st = i;
            while i < cs.len() && (cs[i].is_ascii_alphanumeric() || cs[i] == '_') {
                i += 1;
            }
            out.push(Tk::Id(cs[st..i].iter().collect()));
            continue;
        }
        if c.is_ascii_digit() {
            let st = i;
            if c == '0' && i + 1 < cs.len() && (cs[i + 1] == 'x' || cs[i + 1] == 'X') {
                i += 2;
                while i < cs.len() && cs[i].is_ascii_hexdigit() {
                    i += 1;
                }
                let t: String = cs[st + 2..i].iter().collect();
                out.push(Tk::Num(i64::from_str_radix(&t, 16).map_err(|e| e.to_string())? as i32, true));
            } else {
                while i < cs.len() && cs[i].is_ascii_digit() {
                    i += 1;
                }
                let t: String = cs[st..i].iter().collect();
                let v = if t.len() > 1 && t.starts_with('0') { i64::from_str_radix(&t, 8) } else { t.parse::<i64>() }.map_err(|e| e.to_string())?;
                out.push(Tk::Num(v as i32, false));
            }
            continue;
        }
        if c == '\'' {
            let st = i + 1;
            i += 1;
            if i < cs.len() && cs[i] == '\\' {
                i += 2;
            } else {
                i += 1;
            }
            if i >= cs.len() || cs[i] != '\'' {
                return Err("bad character constant".into());
            }
            let sp: String = cs[st..i].iter().collect();
            let v = if let Some(e) = sp.strip_prefix('\\') {
                match e {
                    "n" => 10,
                    "r" => 13,
                    "t" => 9,
                    "0" => 0,
                    "a" => 7,
                    "b" => 8,
                    "f" => 12,
                    "v" => 11,
                    o => o.chars().next().unwrap() as i32,
                }
            } else {
                sp.chars().next().unwrap() as i32
            };
            out.push(Tk::Chr(sp, v));
            i += 1;
            continue;
        }
        if c == '"' {
            let st = i + 1;
            i += 1;
            while i < cs.len() && cs[i] != '"' {
                if cs[i] == '\\' {
                    i += 1;
                }
                i += 1;
            }
            out.push(Tk::Str(cs[st..i].iter().collect()));
            i += 1;
            continue;
        }
        let mut matched = false;
        for p in PUNCT.iter() {
            let pc: Vec<char> = p.chars().collect();
            if i + pc.len() <= cs.len() && cs[i..i + pc.len()] == pc[..] {
                out.push(Tk::P(p));
                i += pc.len();
                matched = true;
                break;
            }
        }
        if !matched {
            return Err(format!("unexpected character {:?}", c));
        }
    }
    out.push(Tk::Eof);
    Ok(out)
}

struct P {
    t: Vec<Tk>,
    i: usize,
}

type R<X> = Result<X, String>;

fn binop_of(p: &str) -> Option<BinOp> {
    Some(match p {
        "*" => BinOp::Mul,
        "/" => BinOp::Div,
        "+" => BinOp::Add,
        "-" => BinOp::Sub,
        "<<" => BinOp::Shl,
        ">>" => BinOp::Shr,
        "<" => BinOp::Lt,
        "<=" => BinOp::Le,
        ">" => BinOp::Gt,
        ">=" => BinOp::Ge,
        "==" => BinOp::Eq,
        "!=" => BinOp::Ne,
        "&" => BinOp::And,
        "^" => BinOp::Xor,
        "|" => BinOp::Or,
        "&&" => BinOp::LAnd,
        "||" => BinOp::LOr,
        _ => return None,
    })
}

impl P {
    fn peek(&self) -> &Tk {
        &self.t[self.i]
    }
    fn peek2(&self) -> &Tk {
        &self.t[(self.i + 1).min(self.t.len() - 1)]
    }
    fn next(&mut self) -> Tk {
        let t = self.t[self.i].clone();
        if self.i + 1 < self.t.len() {
            self.i += 1;
        }
        t
    }
    fn is_p(&self, p: &str) -> bool {
        matches!(self.peek(), Tk::P(x) if *x == p)
    }
    fn is_id(&self, s: &str) -> bool {
        matches!(self.peek(), Tk::Id(x) if x == s)
    }
    fn eat_p(&mut self, p: &str) -> bool {
        if self.is_p(p) {
            self.next();
            true
        } else {
            false
        }
    }
    fn eat_id(&mut self, s: &str) -> bool {
        if self.is_id(s) {
            self.next();
            true
        } else {
            false
        }
    }
    fn expect_p(&mut self, p: &str) -> R<()> {
        if self.eat_p(p) {
            Ok(())
        } else {
            Err(format!("expected {:?}, found {:?}", p, self.peek()))
        }
    }
    fn ident(&mut self) -> R<String> {
        match self.next() {
            Tk::Id(s) => Ok(s),
            t => Err(format!("expected identifier, found {:?}", t)),
        }
    }

    // ---------------- expressions
    fn expr(&mut self) -> R<E> {
        let mut e = self.assign()?;
        while self.eat_p(",") {
            let r = self.assign()?;
            e = E::Comma(Box::new(e), Box::new(r));
        }
        Ok(e)
    }
    fn assign(&mut self) -> R<E> {
        let l = self.cond()?;
        let ops = [("=", None), ("+=", Some(BinOp::Add)), ("-=", Some(BinOp::Sub)), ("*=", Some(BinOp::Mul)), ("/=", Some(BinOp::Div)), ("&=", Some(BinOp::And)), ("|=", Some(BinOp::Or)), ("^=", Some(BinOp::Xor)), ("<<=", Some(BinOp::Shl)), (">>=", Some(BinOp::Shr))];
        for (p, op) in ops {
            if self.is_p(p) {
                self.next();
                let r = self.assign()?;
                return Ok(E::Asg(op, Box::new(l), Box::new(r)));
            }
        }
        Ok(l)
    }
    fn cond(&mut self) -> R<E> {
        let c = self.binary(4)?;
        if self.eat_p("?") {
            let a = self.expr()?;
            self.expect_p(":")?;
            let b = self.cond()?;
            return Ok(E::Cond(Box::new(c), Box::new(a), Box::new(b)));
        }
        Ok(c)
    }
    fn binary(&mut self, min: u8) -> R<E> {
        let mut l = self.unary()?;
        loop {
            let op = match self.peek() {
                Tk::P(p) => binop_of(p),
                _ => None,
            };
            let op = match op {
                Some(o) if o.prec() >= min => o,
                _ => break,
            };
            self.next();
            let r = self.binary(op.prec() + 1)?;
            l = E::Bin(op, Box::new(l), Box::new(r));
        }
        Ok(l)
    }
    fn unary(&mut self) -> R<E> {
        if self.eat_p("-") {
            let a = self.unary()?;
            if let E::Lit(v, h) = a {
                return Ok(E::Lit(-v, h));
            }
            return Ok(E::Un(UnOp::Neg, Box::new(a)));
        }
        if self.eat_p("~") {
            return Ok(E::Un(UnOp::BNot, Box::new(self.unary()?)));
        }
        if self.eat_p("!") {
            return Ok(E::Un(UnOp::LNot, Box::new(self.unary()?)));
        }
        if self.eat_p("++") {
            return Ok(E::Inc { pre: true, inc: true, e: Box::new(self.unary()?) });
        }
        if self.eat_p("--") {
            return Ok(E::Inc { pre: true, inc: false, e: Box::new(self.unary()?) });
        }
        if self.eat_p("*") {
            let n = self.ident()?;
            return Ok(E::Deref(n));
        }
        if self.eat_p("&") {
            let n = self.ident()?;
            return Ok(E::AddrOf(n));
        }
        if self.is_id("sizeof") {
            self.next();
            self.expect_p("(")?;
            let mut txt = String::new();
            while !self.is_p(")") {
                match self.next() {
                    Tk::Id(s) => {
                        if !txt.is_empty() {
                            txt.push(' ');
                        }
                        txt.push_str(&s)
                    }
                    Tk::P(p) => txt.push_str(p),
                    t => return Err(format!("sizeof: {:?}", t)),
                }
            }
            self.expect_p(")")?;
            return Ok(E::Sizeof(txt, -1));
        }
        self.postfix()
    }
    fn postfix(&mut self) -> R<E> {
        let mut e = self.primary()?;
        loop {
            if self.eat_p("++") {
                e = E::Inc { pre: false, inc: true, e: Box::new(e) };
            } else if self.eat_p("--") {
                e = E::Inc { pre: false, inc: false, e: Box::new(e) };
            } else {
                break;
            }
        }
        Ok(e)
    }
    fn primary(&mut self) -> R<E> {
        match self.next() {
            Tk::Num(v, h) => Ok(E::Lit(v, h)),
            Tk::Chr(sp, v) => Ok(E::CharLit(sp, v)),
            Tk::P("(") => {
                let e = self.expr()?;
                self.expect_p(")")?;
                Ok(E::Paren(Box::new(e)))
            }
            Tk::Id(n) => {
                if self.eat_p("[") {
                    let i = self.expr()?;
                    self.expect_p("]")?;
                    Ok(E::Idx(n, Box::new(i)))
                } else if self.eat_p("(") {
                    let mut args = Vec::new();
                    if !self.is_p(")") {
                        loop {
                            args.push(self.assign()?);
                            if !self.eat_p(",") {
                                break;
                            }
                        }
                    }
                    self.expect_p(")")?;
                    Ok(E::Call(n, args))
                } else {
                    Ok(E::Var(n))
                }
            }
            t => Err(format!("unexpected token {:?} in expression", t)),
        }
    }

    // ---------------- declarations
    fn is_type_start(&self) -> bool {
        matches!(self.peek(), Tk::Id(s) if matches!(s.as_str(), "char" | "short" | "int" | "unsigned" | "signed" | "const" | "superchip" | "ramchip" | "void" | "inline") || s.starts_with("bank") && s[4..].chars().all(|c| c.is_ascii_digit()) && s.len() > 4)
    }

    /// parses qualifiers + base type; returns (qual text, is_const, base Ty or None for void)
    fn type_spec(&mut self) -> R<(String, bool, Option<Ty>, bool)> {
        let mut qual = Vec::new();
        let mut is_const = false;
        let mut sign: Option<bool> = None;
        let mut inline = false;
        loop {
            match self.peek().clone() {
                Tk::Id(s) if s == "const" => {
                    is_const = true;
                    self.next();
                }
                Tk::Id(s) if s == "inline" => {
                    inline = true;
                    self.next();
                }
                Tk::Id(s) if s == "superchip" || s == "ramchip" || (s.starts_with("bank") && s.len() > 4 && s[4..].chars().all(|c| c.is_ascii_digit())) => {
                    qual.push(s);
                    self.next();
                }
                Tk::Id(s) if s == "unsigned" => {
                    sign = Some(false);
                    self.next();
                }
                Tk::Id(s) if s == "signed" => {
                    sign = Some(true);
                    self.next();
                }
                _ => break,
            }
        }
        let ty = match self.peek().clone() {
            Tk::Id(s) if s == "void" => {
                self.next();
                None
            }
            Tk::Id(s) if s == "char" => {
                self.next();
                Some(if sign == Some(true) { Ty::S8 } else { Ty::U8 })
            }
            Tk::Id(s) if s == "short" || s == "int" => {
                self.next();
                if s == "short" {
                    self.eat_id("int");
                }
                Some(if sign == Some(false) { Ty::U16 } else { Ty::I16 })
            }
            t => {
                if sign.is_some() {
                    Some(if sign == Some(false) { Ty::U16 } else { Ty::I16 })
                } else {
                    return Err(format!("expected type, found {:?}", t));
                }
            }
        };
        Ok((qual.join(" "), is_const, ty, inline))
    }

    fn declarator(&mut self, qual: &str, is_const: bool, ty: Ty, local: bool) -> R<Decl> {
        let mut ptr = 0;
        while self.eat_p("*") {
            ptr += 1;
        }
        let const_after = self.eat_id("const");
        let name = self.ident()?;
        let mut arr: Option<Option<usize>> = None;
        if self.eat_p("[") {
            if self.is_p("]") {
                arr = Some(None);
            } else {
                match self.next() {
                    Tk::Num(v, _) => arr = Some(Some(v as usize)),
                    t => return Err(format!("array size: {:?}", t)),
                }
            }
            self.expect_p("]")?;
        }
        let mut d = Decl { name, kind: DeclKind::Scalar(ty), qual: qual.to_string(), init: None };
        if self.eat_p("=") {
            if self.eat_p("{") {
                let mut vals = Vec::new();
                let mut names = Vec::new();
                while !self.is_p("}") {
                    match self.next() {
                        Tk::Num(v, _) => vals.push(v),
                        Tk::Chr(_, v) => vals.push(v),
                        Tk::P("-") => match self.next() {
                            Tk::Num(v, _) => vals.push(-v),
                            t => return Err(format!("initialiser: {:?}", t)),
                        },
                        Tk::Id(s) => names.push(s),
                        t => return Err(format!("initialiser: {:?}", t)),
                    }
                    self.eat_p(",");
                }
                self.expect_p("}")?;
                if ptr == 1 {
                    d.kind = DeclKind::PtrArray(names);
                } else {
                    d.kind = DeclKind::ConstArray(ty, vals);
                }
                return Ok(d);
            }
            let e = self.assign()?;
            if ptr == 1 && const_after {
                if let E::Lit(v, _) = e {
                    d.kind = DeclKind::ConstAddr(v);
                    return Ok(d);
                }
            }
            if is_const && ptr == 0 && !local {
                if let E::Lit(v, _) = e {
                    d.kind = DeclKind::ConstVal(ty, v);
                    return Ok(d);
                }
                return Err("unsupported const initialiser".into());
            }
            d.init = Some(e);
        }
        if ptr == 1 {
            d.kind = DeclKind::Ptr;
        } else if ptr > 1 {
            return Err("pointer to pointer".into());
        }
        if let Some(n) = arr {
            match n {
                Some(n) => d.kind = DeclKind::Array(ty, n),
                None => return Err("array without size".into()),
            }
        }
        Ok(d)
    }

    // ---------------- statements
    fn stmt(&mut self) -> R<S> {
        if self.is_p("{") {
            return self.block();
        }
        if self.eat_p(";") {
            return Ok(S::Empty);
        }
        if let Tk::Id(s) = self.peek().clone() {
            if matches!(self.peek2(), Tk::P(":")) && !matches!(s.as_str(), "default" | "case") {
                self.next();
                self.next();
                let st = self.stmt()?;
                return Ok(S::Label(s, Box::new(st)));
            }
            match s.as_str() {
                "if" => {
                    self.next();
                    self.expect_p("(")?;
                    let c = self.expr()?;
                    self.expect_p(")")?;
                    let a = self.stmt()?;
                    let b = if self.eat_id("else") { Some(Box::new(self.stmt()?)) } else { None };
                    return Ok(S::If(c, Box::new(a), b));
                }
                "while" => {
                    self.next();
                    self.expect_p("(")?;
                    let c = self.expr()?;
                    self.expect_p(")")?;
                    let b = self.stmt()?;
                    return Ok(S::While(c, Box::new(b)));
                }
                "do" => {
                    self.next();
                    let b = self.stmt()?;
                    if !self.eat_id("while") {
                        return Err("expected while".into());
                    }
                    self.expect_p("(")?;
                    let c = self.expr()?;
                    self.expect_p(")")?;
                    self.expect_p(";")?;
                    return Ok(S::DoWhile(Box::new(b), c));
                }
                "for" => {
                    self.next();
                    self.expect_p("(")?;
                    let i = if self.is_p(";") { None } else { Some(self.expr()?) };
                    self.expect_p(";")?;
                    let c = if self.is_p(";") { None } else { Some(self.expr()?) };
                    self.expect_p(";")?;
                    let u = if self.is_p(")") { None } else { Some(self.expr()?) };
                    self.expect_p(")")?;
                    let b = self.stmt()?;
                    return Ok(S::For(i, c, u, Box::new(b)));
                }
                "switch" => {
                    self.next();
                    self.expect_p("(")?;
                    let e = self.expr()?;
                    self.expect_p(")")?;
                    self.expect_p("{")?;
                    let mut cases: Vec<Case> = Vec::new();
                    while !self.is_p("}") {
                        if self.eat_id("case") {
                            let v = match self.next() {
                                Tk::Num(v, _) => v,
                                Tk::Chr(_, v) => v,
                                Tk::P("-") => match self.next() {
                                    Tk::Num(v, _) => -v,
                                    t => return Err(format!("case: {:?}", t)),
                                },
                                t => return Err(format!("case: {:?}", t)),
                            };
                            self.expect_p(":")?;
                            match cases.last_mut() {
                                Some(c) if c.body.is_empty() && !c.is_default => c.labels.push(v),
                                _ => cases.push(Case { labels: vec![v], is_default: false, body: vec![] }),
                            }
                        } else if self.eat_id("default") {
                            self.expect_p(":")?;
                            cases.push(Case { labels: vec![], is_default: true, body: vec![] });
                        } else {
                            let st = self.stmt()?;
                            match cases.last_mut() {
                                Some(c) => c.body.push(st),
                                None => return Err("statement before first case".into()),
                            }
                        }
                    }
                    self.expect_p("}")?;
                    return Ok(S::Switch(e, cases));
                }
                "break" => {
                    self.next();
                    self.expect_p(";")?;
                    return Ok(S::Break);
                }
                "continue" => {
                    self.next();
                    self.expect_p(";")?;
                    return Ok(S::Continue);
                }
                "return" => {
                    self.next();
                    let e = if self.is_p(";") { None } else { Some(self.expr()?) };
                    self.expect_p(";")?;
                    return Ok(S::Return(e));
                }
                "goto" => {
                    self.next();
                    let l = self.ident()?;
                    self.expect_p(";")?;
                    return Ok(S::Goto(l));
                }
                "load" | "store" => {
                    self.next();
                    self.expect_p("(")?;
                    let e = self.expr()?;
                    self.expect_p(")")?;
                    self.expect_p(";")?;
                    return Ok(if s == "load" { S::Load(e) } else { S::Store(e) });
                }
                "strobe" => {
                    self.next();
                    self.expect_p("(")?;
                    let n = self.ident()?;
                    self.expect_p(")")?;
                    self.expect_p(";")?;
                    return Ok(S::Strobe(n));
                }
                "csleep" => {
                    self.next();
                    self.expect_p("(")?;
                    let v = match self.next() {
                        Tk::Num(v, _) => v,
                        Tk::P("-") => match self.next() {
                            Tk::Num(v, _) => -v,
                            t => return Err(format!("csleep: {:?}", t)),
                        },
                        t => return Err(format!("csleep: {:?}", t)),
                    };
                    self.expect_p(")")?;
                    self.expect_p(";")?;
                    return Ok(S::Csleep(v));
                }
                "asm" => {
                    self.next();
                    self.expect_p("(")?;
                    let t = match self.next() {
                        Tk::Str(s) => s,
                        t => return Err(format!("asm: {:?}", t)),
                    };
                    let sz = if self.eat_p(",") {
                        match self.next() {
                            Tk::Num(v, _) => Some(v as u32),
                            t => return Err(format!("asm size: {:?}", t)),
                        }
                    } else {
                        None
                    };
                    self.expect_p(")")?;
                    self.expect_p(";")?;
                    return Ok(S::Asm(t, sz));
                }
                _ => {}
            }
            if self.is_type_start() {
                let (qual, is_const, ty, _) = self.type_spec()?;
                let ty = ty.ok_or("void local")?;
                let mut ds = Vec::new();
                loop {
                    ds.push(self.declarator(&qual, is_const, ty, true)?);
                    if !self.eat_p(",") {
                        break;
                    }
                }
                self.expect_p(";")?;
                return Ok(S::Decl(ds));
            }
        }
        let e = self.expr()?;
        self.expect_p(";")?;
        Ok(S::Expr(e))
    }

    fn block(&mut self) -> R<S> {
        self.expect_p("{")?;
        let mut v = Vec::new();
        while !self.is_p("}") {
            if matches!(self.peek(), Tk::Eof) {
                return Err("unterminated block".into());
            }
            v.push(self.stmt()?);
        }
        self.expect_p("}")?;
        Ok(S::Block(v))
    }

    fn program(&mut self) -> R<Program> {
        let mut p = Program::default();
        while !matches!(self.peek(), Tk::Eof) {
            if self.eat_p(";") {
                continue;
            }
            let (qual, is_const, ty, inline) = self.type_spec()?;
            let interrupt = self.eat_id("interrupt");
            // function?
            let save = self.i;
            let mut stars = 0;
            while self.eat_p("*") {
                stars += 1;
            }
            let _ = self.eat_id("const");
            let name = self.ident()?;
            if self.is_p("(") && stars == 0 {
                self.next();
                let mut params = Vec::new();
                if !self.is_p(")") {
                    if self.is_id("void") && matches!(self.peek2(), Tk::P(")")) {
                        self.next();
                    } else {
                        loop {
                            let (_, _, pty, _) = self.type_spec()?;
                            let pty = pty.ok_or("void parameter")?;
                            params.push(self.declarator("", false, pty, true)?);
                            if !self.eat_p(",") {
                                break;
                            }
                        }
                    }
                }
                self.expect_p(")")?;
                if self.eat_p(";") {
                    // prototype: remember it
                    p.funcs.push(Func { name, ret: ty, params, body: vec![], inline, interrupt, proto_first: true, qual: qual.clone() });
                    continue;
                }
                let body = match self.block()? {
                    S::Block(v) => v,
                    _ => unreachable!(),
                };
                if let Some(f) = p.funcs.iter_mut().find(|f| f.name == name && f.proto_first && f.body.is_empty()) {
                    f.body = body;
                    f.params = params;
                    // an attribute given on either declaration holds
                    f.interrupt = f.interrupt || interrupt;
                } else {
                    p.funcs.push(Func { name, ret: ty, params, body, inline, interrupt, proto_first: false, qual: qual.clone() });
                }
                continue;
            }
            self.i = save;
            let ty = ty.ok_or("void variable")?;
            loop {
                p.globals.push(self.declarator(&qual, is_const, ty, false)?);
                if !self.eat_p(",") {
                    break;
                }
            }
            self.expect_p(";")?;
        }
        Ok(p)
    }
}

pub fn parse_program(src: &str) -> Result<Program, String> {
    let t = lex(src)?;
    let mut p = P { t, i: 0 };
    p.program()
}

pub fn parse_stmt(src: &str) -> Result<S, String> {
    let t = lex(src)?;
    let mut p = P { t, i: 0 };
    let s = p.stmt()?;
    if !matches!(p.peek(), Tk::Eof) {
        return Err(format!("trailing tokens after statement: {:?}", p.peek()));
    }
    Ok(s)
}

pub fn parse_expr(src: &str) -> Result<E, String> {
    let t = lex(src)?;
    let mut p = P { t, i: 0 };
    let e = p.expr()?;
    if !matches!(p.peek(), Tk::Eof) {
        return Err(format!("trailing tokens after expression: {:?}", p.peek()));
    }
    Ok(e)
}

/// Strip explicit Paren nodes (the printer re-derives the needed parentheses).
pub fn strip_parens(e: &E) -> E {
    match e {
        E::Paren(a) => strip_parens(a),
        E::Idx(n, i) => E::Idx(n.clone(), Box::new(strip_parens(i))),
        E::Un(o, a) => E::Un(*o, Box::new(strip_parens(a))),
        E::Bin(o, a, b) => E::Bin(*o, Box::new(strip_parens(a)), Box::new(strip_parens(b))),
        E::Asg(o, a, b) => E::Asg(*o, Box::new(strip_parens(a)), Box::new(strip_parens(b))),
        E::Inc { pre, inc, e } => E::Inc { pre: *pre, inc: *inc, e: Box::new(strip_parens(e)) },
        E::Cond(c, a, b) => E::Cond(Box::new(strip_parens(c)), Box::new(strip_parens(a)), Box::new(strip_parens(b))),
        E::Comma(a, b) => E::Comma(Box::new(strip_parens(a)), Box::new(strip_parens(b))),
        E::Call(f, args) => E::Call(f.clone(), args.iter().map(strip_parens).collect()),
        x => x.clone(),
    }
}
