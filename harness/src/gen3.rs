//! Families added after the first round of seeded changes:
//! F2.flow — what the generator believes about the flags / registers at control-flow joins
//!           (a statement that sets the belief, a branch construct, a zero test afterwards);
//! F1.w16k — 16-bit operations with constants of every byte shape.

use crate::engine::Tier;
use crate::gen2::{case_from_text, D0S_TEXT, D0_TEXT};
use crate::sem::SemCase;

fn main_with(decls: &str, body: &str) -> String {
    format!("{}char f() {{ return c; }}\nvoid g() {{ c = c + 1; }}\nvoid main()\n{{\n{}\n}}\n", decls, body)
}

pub const FLOW_PREFIX: [&str; 23] = ["X--;", "a = b;", "Y--;", "a++;", "X = a;", "a = 5;", "s--;", "a--;", "a = X;", "X++;", "Y = a;", "Y++;", "a = b + 1;", "a = arr[X];", "a &= 3;", "s++;", "a = f();", "arr[X] = a;", "X = 1;", "a = b + 1; load(c);", "a = b + 1; asm(\"LDA #0\", 2);", "X = a; load(c);", "Y = 3;"];
pub const FLOW_C1: [&str; 10] = ["b == 3", "c && a", "b", "b && X", "b < c", "X == 1", "c != Y", "b & 1", "c || a", "c && !Y"];
pub const FLOW_C2: [&str; 14] = ["X", "a", "Y", "!X", "s", "a <= 3", "!a", "a == 0", "X != 0", "Y == 0", "a != 0", "a > 3", "X <= 1", "s == 0"];

pub fn flow_templates() -> Vec<&'static str> {
    vec![
        "{P} if ({C2}) r = 2; else r = 3;",
        "{P} c = 0; {P} if ({C2}) r = 2; else r = 3;",
        "for (c = 0; c < 2; c++) { {P} if ({C2}) r++; }",
        "{P} r = ({C2}) ? 2 : 3;",
        "{P} while ({C2}) { r++; break; }",
        "{P} if ({C1}) r = 1; else if ({C2}) r = 2;",
        "{P} if ({C1}) r = 1; else { if ({C2}) r = 2; else r = 3; }",
        "{P} if ({C1}) r = 1; if ({C2}) r = 2;",
        "{P} if ({C1}) r = 1; else r = 4; if ({C2}) r = 2;",
        "{P} r = {C1} ? 1 : 4; if ({C2}) r = 2;",
        "{P} switch (b) { case 1: r = 1; break; case 2: r = 5; default: if ({C2}) r = 2; }",
        "{P} for (c = 0; c < 2; c++) { if ({C2}) r++; }",
        "{P} c = 2; do { if ({C2}) r++; c--; } while (c);",
        "{P} if ({C1}) goto l1; r = 7; l1: if ({C2}) r = 2;",
        "{P} while ({C1}) { b = 0; c = 0; Y = 0; X = 1; break; } if ({C2}) r = 2;",
        "{P} if ({C1} && {C2}) r = 1; else r = 2;",
        "{P} if ({C1} || {C2}) r = 1; else r = 2;",
        "{P} if ({C1}) { g(); } if ({C2}) r = 2;",
        // joins reached with different register contents, then constants stored again
        "{P} switch (b) { case 0: r = 1; break; default: r = 2; break; } c = X; a = 2; if ({C2}) r = 3;",
        "{P} if ({C1}) r = 1; else r = 2; c = X; b = 2; if ({C2}) r = 3;",
        "{P} if ({C1}) X = 1; else X = 2; c = 2; Y = 2; if ({C2}) r = 3;",
    ]
}

pub fn f2_flow(tier: Tier) -> Vec<SemCase> {
    let quick = tier == Tier::Quick;
    let ps: Vec<&str> = if quick {
        let mut v = FLOW_PREFIX[..8].to_vec();
        v.extend_from_slice(&["X = 1;", "a = b + 1; load(c);", "a = b + 1; asm(\"LDA #0\", 2);"]);
        v
    } else {
        FLOW_PREFIX.to_vec()
    };
    let c1s: Vec<&str> = if quick { FLOW_C1[..4].to_vec() } else { FLOW_C1.to_vec() };
    let c2s: Vec<&str> = if quick { FLOW_C2[..6].to_vec() } else { FLOW_C2.to_vec() };
    let decls: Vec<&str> = vec![D0_TEXT, D0S_TEXT];
    let small: Vec<(&str, &[i32])> = vec![("a", &[0, 1, 3, 0x80, 0xff]), ("b", &[0, 1, 2, 3, 0xff]), ("c", &[0, 1, 4]), ("r", &[0, 9]), ("X", &[0, 1, 2, 3]), ("Y", &[0, 1, 3]), ("s", &[0, 1, 0x100, 0x101, 0xffff])];
    let mut v = Vec::new();
    for d in &decls {
        for t in flow_templates() {
            for p in &ps {
                if quick && *d == D0S_TEXT && *p != "a = 5;" {
                    // quick: the signed declarations only with the constant assignment
                    continue;
                }
                for c1 in &c1s {
                    if !t.contains("{C1}") && *c1 != c1s[0] {
                        continue;
                    }
                    for c2 in &c2s {
                        let body = t.replace("{P}", p).replace("{C1}", c1).replace("{C2}", c2);
                        v.push(case_from_text("F2.flow", &main_with(d, &body), &small, vec!["flow"], 600));
                    }
                }
            }
        }
    }
    v
}

/// flag / register knowledge across function boundaries and calls:
/// a function whose body ends in P, followed by (or called from) code that tests a value
pub fn f2_fnflow(tier: Tier) -> Vec<SemCase> {
    let quick = tier == Tier::Quick;
    let ps: Vec<&str> = if quick { FLOW_PREFIX[..8].to_vec() } else { FLOW_PREFIX[..14].to_vec() };
    let qs: Vec<&str> = if quick { vec!["X = b;", "a--;", "a = b;", "Y--;", "c = a - b;", ""] } else { vec!["X = b;", "a--;", "a = b;", "Y--;", "c = a - b;", "", "X++;", "a = b + 1;", "Y = a;", "s++;"] };
    let c2s: Vec<&str> = if quick { FLOW_C2[..6].to_vec() } else { FLOW_C2.to_vec() };
    let small: Vec<(&str, &[i32])> = vec![("a", &[0, 1, 3, 0x80, 0xff]), ("b", &[0, 1, 2, 3, 0xff]), ("c", &[0, 1, 4]), ("r", &[0, 9]), ("X", &[0, 1, 2, 3]), ("Y", &[0, 1, 3]), ("s", &[0, 1, 0xff, 0xffff])];
    let mut v = Vec::new();
    for p in &ps {
        if p.contains("f()") {
            continue;
        }
        for c2 in &c2s {
            // h is generated before main and is not called: what it leaves behind must not matter
            let src = format!("{}void h() {{ {} }}\nvoid main()\n{{\nif ({}) r = 2; else r = 3;\n}}\n", D0_TEXT, p, c2);
            v.push(case_from_text("F2.fnflow", &src, &small, vec!["fnflow"], 400));
            let src = format!("{}void h() {{ {} }}\nvoid main()\n{{\nwhile ({}) {{ r++; break; }}\n}}\n", D0_TEXT, p, c2);
            v.push(case_from_text("F2.fnflow", &src, &small, vec!["fnflow"], 400));
            for q in &qs {
                for inl in ["", "inline "] {
                    let src = format!("{}{}void h() {{ {} }}\nvoid main()\n{{\n{} h(); if ({}) r = 2; else r = 3;\n}}\n", D0_TEXT, inl, p, q, c2);
                    v.push(case_from_text("F2.fnflow", &src, &small, vec!["fnflow"], 400));
                }
            }
        }
    }
    v
}

pub const W16_CONSTS: [&str; 14] = ["0x1ff", "0xff", "0x100", "0xff00", "0x7fff", "1", "0x8000", "0xfffe", "0xf0", "0x0f0f", "0x3ff", "-1", "0", "0x80"];

pub fn f_w16k(tier: Tier) -> Vec<SemCase> {
    let quick = tier == Tier::Quick;
    let ks: Vec<&str> = if quick { W16_CONSTS[..7].to_vec() } else { W16_CONSTS.to_vec() };
    let decls: Vec<&str> = if quick { vec![D0_TEXT] } else { vec![D0_TEXT, D0S_TEXT] };
    let small: Vec<(&str, &[i32])> = vec![("s", &[0, 1, 0xff, 0x100, 0x1ff, 0x7fff, 0x8000, 0xfffe, 0xffff, 0x1234]), ("t", &[0, 1, 0xff, 0x100, 0x1ff, 0x7fff, 0x8000, 0xfffe, 0xffff, 0x1234]), ("u", &[0, 1, 0xff, 0x100, 0x1ff, 0x7fff, 0x8000, 0xfffe, 0xffff, 0x1234])];
    let mut v = Vec::new();
    for d in &decls {
        for k in &ks {
            for op in ["&", "|", "^", "+", "-"] {
                for (dst, src) in [("s", "t"), ("u", "s"), ("s", "s"), ("u", "u"), ("t", "u")] {
                    v.push(case_from_text("F1.w16k", &main_with(d, &format!("{} = {} {} {};", dst, src, op, k)), &small, vec!["w16k"], 400));
                    if !quick || dst == "s" {
                        v.push(case_from_text("F1.w16k", &main_with(d, &format!("{} = {} {} {};", dst, k, op, src)), &small, vec!["w16k"], 400));
                    }
                }
                for dst in ["s", "u"] {
                    v.push(case_from_text("F1.w16k", &main_with(d, &format!("{} {}= {};", dst, op, k)), &small, vec!["w16k"], 400));
                }
                v.push(case_from_text("F1.w16k", &main_with(d, &format!("r = (s {} {}) >> 8;", op, k)), &small, vec!["w16k"], 400));
                v.push(case_from_text("F1.w16k", &main_with(d, &format!("r = s {} {};", op, k)), &small, vec!["w16k"], 400));
            }
            for cmp in ["==", "!=", "<", ">=", ">", "<="] {
                for src in ["s", "u"] {
                    v.push(case_from_text("F1.w16k", &main_with(d, &format!("r = 0; if ({} {} {}) r = 1;", src, cmp, k)), &small, vec!["w16k"], 400));
                }
            }
        }
    }
    v
}

/// nested subscripts (an indexed element used as an index), kept in bounds by the statements before
pub fn f1_nest() -> Vec<SemCase> {
    let bodies = [
        "arr[0] = 1; arr[1] = 3; X = 0; r = arr[arr[X]];",
        "Y = 1; arr[1] = 2; r = arr[arr[Y]];",
        "Y = 0; r = arr[tab[Y]];",
        "X = 1; r = arr[tab[X]];",
        "X = 1; arr[tab[X]] = a;",
        "Y = 0; arr[tab[Y]] = a;",
        "r = tab[arr[Y] & 3];",
        "r = arr[tab[X] & 3];",
        "arr[arr[X] & 3] = a;",
        "arr[arr[Y] & 3] = a;",
        "Y = 0; r = tab[tab[Y]];",
        "X = 0; Y = 1; r = arr[tab[X]] + arr[tab[Y]];",
        "arr[2] = 1; Y = 2; X = arr[arr[Y]];",
        "arr[2] = 1; X = 2; Y = arr[arr[X]];",
        "Y = 0; if (arr[tab[Y]] == 0x80) r = 1; else r = 2;",
        "p = arr; arr[1] = 2; Y = 1; r = p[arr[Y]];",
        "X = 0; s = sarr[tab[X]];",
        "Y = 0; sarr[tab[Y]] = s;",
    ];
    let small: Vec<(&str, &[i32])> = vec![("X", &[0, 1, 2, 3]), ("Y", &[0, 1, 2, 3])];
    let mut v = Vec::new();
    for d in [D0_TEXT, D0S_TEXT] {
        for b in bodies {
            v.push(case_from_text("F1.nest", &main_with(d, b), &small, vec!["nest"], 400));
        }
    }
    v
}

/// pointers: assignment from arrays, increments, dereference, indexing by Y, copies, address-of, 16-bit views
pub fn f6_ptr() -> Vec<SemCase> {
    let bodies = [
        "p = arr; r = p[Y];",
        "p = arr; r = *p;",
        "p = arr; p++; r = *p;",
        "p = arr; p++; p++; r = p[Y];",
        "p = arr; ++p; r = *p;",
        "p = arr; p++; p--; r = *p;",
        "p = arr; p += 2; r = *p;",
        "p = arr; p += a; r = *p;",
        "p = arr; *p = a; r = arr[0];",
        "p = arr; p[Y] = a; r = arr[Y];",
        "p = arr; p[Y]++; r = arr[Y];",
        "p = arr; p[Y] += b; r = arr[Y];",
        "p = arr; *p = *p + 1; r = arr[0];",
        "p = tab; r = p[Y];",
        "p = tab; p++; r = *p;",
        "p = arr; q = p; q++; r = *q; c = *p;",
        "p = arr; q = p; r = q[Y];",
        "p = &a; *p = 5; r = a;",
        "p = &b; r = *p;",
        "p = arr; if (*p) r = 1; else r = 2;",
        "p = arr; if (p[Y] == 0x7f) r = 1; else r = 2;",
        "p = arr; r = 0; while (*p != 0x7f) { p++; r++; }",
        "p = arr; r = 0; for (Y = 0; Y != 4; Y++) { if (p[Y] & 0x80) r++; }",
        "p = arr; s = p; p = s; r = *p;",
        "p = arr; r = p >> 8; c = p;",
        "p = arr; q = arr; if (p == q) r = 1; else r = 2;",
        "p = arr; q = arr; q++; if (p != q) r = 1; else r = 2;",
        "p = arr; X = p[Y];",
        "p = arr; Y = 1; X = p[Y]; Y = p[Y];",
        "p = arr; a = p[Y] + 1;",
        "p = arr; a = p[Y] & b;",
        "p = arr; a = b + p[Y];",
        "p = arr; a = p[Y]; b = p[Y];",
        "p = arr; p[Y] = p[Y] << 1; r = arr[Y];",
        "p = arr; arr[1] = 9; Y = 1; r = p[Y];",
        "p = arr; Y = 0; *p = 3; p++; *p = 4; r = arr[0] + arr[1];",
        "p = arr; fp(p); r = c;",
        "p = arr; r = gp(p);",
        "p = arr; r = gp(p) + 1; c = *p;",
        "p = arr; p++; r = gp(p);",
        "p = arr; r = p[2] + X; c = Y;",
        "p = arr; r = X + p[2]; c = Y;",
        "p = arr; r = p[2] + Y; c = Y;",
        "p = arr; r = (p[2] & 1) + (a & 2); c = Y;",
        "p = arr; r = p[1] - X; c = Y;",
        "p = arr; r = p[2]; c = Y;",
        "p = arr; if (p[2] == X) r = 1; else r = 2; c = Y;",
        "p = arr; X = p[3]; c = Y;",
    ];
    let small: Vec<(&str, &[i32])> = vec![("Y", &[0, 1, 2, 3]), ("a", &[0, 1, 2, 0x80, 0xff]), ("b", &[0, 1, 0x7f, 0xff])];
    let extra = "char *q;\nvoid fp(char *v) { c = v[Y]; }\nchar gp(char *v) { return v[Y]; }\n";
    let mut v = Vec::new();
    for d in [D0_TEXT, D0S_TEXT] {
        for b in bodies {
            let src = format!("{}{}void main()\n{{\n{}\n}}\n", d, extra, b);
            v.push(case_from_text("F6.ptr", &src, &small, vec!["ptr"], 400));
        }
    }
    v
}

/// an operation that leaves a carry, then ++/-- (or += 1), then a comparison of the same object with 0 or 1
pub fn f2_carry() -> Vec<SemCase> {
    let small: Vec<(&str, &[i32])> = vec![("a", &[0, 1, 2, 7, 0x80, 0xff]), ("b", &[0, 1, 2, 7, 0xff]), ("c", &[0]), ("r", &[0]), ("X", &[0, 1]), ("s", &[0, 1, 0xff, 0x100, 0x7fff, 0xffff])];
    let mut v = Vec::new();
    for pre in ["c = a - b;", "c = b - a;", "c = a + b;", "c = a << 1;", "if (a < b) c = 1;", ""] {
        for inc in ["++b;", "b++;", "--b;", "b--;", "arr[X]++;", "arr[X]--;", "s++;", "s--;", "b += 1;", "b -= 1;"] {
            let obj = if inc.contains("arr") { "arr[X]" } else if inc.contains('s') { "s" } else { "b" };
            for test in ["{} > 0", "{} <= 0", "{} >= 1", "{} == 0", "{} < 1", "{} != 0", "{}"] {
                let t = test.replace("{}", obj);
                let body = format!("{} {} if ({}) r = 1; else r = 2;", pre, inc, t);
                v.push(case_from_text("F2.carry", &main_with(D0_TEXT, &body), &small, vec!["carry"], 400));
            }
        }
    }
    v
}

/// sign extension: signed 8-bit objects (scalars, array elements indexed by X, Y, a constant) widened to 16 bits
pub fn f1_sext() -> Vec<SemCase> {
    let decl = "signed char sa[4]; signed char sb; unsigned char ub, r; short s, t; unsigned short u;\n";
    let bodies = [
        "s = sa[Y];", "s = sa[X];", "s = sa[1];", "s = sb;", "s = ub;", "u = sa[Y];", "u = sb;",
        "s += sa[Y];", "s += sa[X];", "s += sb;", "s -= sa[Y];", "s -= sb;", "t = s + sa[X];", "t = s + sa[Y];", "t = s - sb;",
        "s = sa[Y]; t = sa[X];", "s = sa[X]; t = sa[Y];", "s = sa[Y] + sb;", "s = sb + sa[X];",
        "r = 0; if (sa[Y] < 0) r = 1;", "r = 0; if (sa[X] >= 0) r = 1;", "r = 0; if (sb < 0) r = 1; else r = 2;",
        "s = -sb;", "s = sa[Y] << 1;", "s = sb >> 1;", "s = sb; s >>= 1;", "s = sa[X]; s <<= 2;",
        "X = sa[Y]; s = X;", "sb = sa[Y]; s = sb;", "sa[X] = sb; s = sa[X];",
    ];
    let small: Vec<(&str, &[i32])> = vec![("X", &[0, 1, 2, 3]), ("Y", &[0, 1, 2, 3]), ("sb", &[0, 1, 0x7f, 0x80, 0xff]), ("ub", &[0, 0x7f, 0x80, 0xff]), ("s", &[0, 1, 0xff, 0x100, 0x8000, 0xffff]), ("t", &[0, 0x1234])];
    let mut v = Vec::new();
    for b in bodies {
        let src = format!("{}void main()\n{{\n{}\n}}\n", decl, b);
        v.push(case_from_text("F1.sext", &src, &small, vec!["sext"], 600));
    }
    v
}
