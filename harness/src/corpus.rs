//! Shared corpora of semantic cases used by several properties. Cases are kept in a compact
//! form and expanded into a full program only when they are run (the thorough tiers have
//! ~10^6 cases and every worker process holds the list).

use crate::ast::{Ty, E};
use crate::engine::Tier;
use crate::gen::{self, Sink};
use crate::gen2;
use crate::gen3;
use crate::gen4;
use crate::sem::SemCase;

pub enum CaseSpec {
    Expr { fam: &'static str, ta: Ty, tr: Ty, sink: Sink, e: E },
    Seq(Vec<u8>),
    Full(Box<SemCase>),
}

impl CaseSpec {
    pub fn build(&self) -> SemCase {
        match self {
            CaseSpec::Expr { fam, ta, tr, sink, e } => gen::build_expr_case(fam, *ta, *tr, *sink, e, &[], false).expect("pre-filtered expression case"),
            CaseSpec::Seq(idxs) => gen2::f4_case(&idxs.iter().map(|x| *x as usize).collect::<Vec<_>>()),
            CaseSpec::Full(c) => (**c).clone(),
        }
    }
    pub fn family(&self) -> String {
        match self {
            CaseSpec::Expr { fam, .. } => fam.to_string(),
            CaseSpec::Seq(_) => "F4.seq".to_string(),
            CaseSpec::Full(c) => c.family.clone(),
        }
    }
}

fn push_f1(v: &mut Vec<CaseSpec>, tier: Tier, thin_d2: bool) {
    let f1 = gen::f1(tier);
    let mut k = 0usize;
    for (fam, ta, tr, sink, e) in f1.cases.into_iter() {
        if !gen::expr_case_ok(sink, &e) {
            continue;
        }
        k += 1;
        if thin_d2 && fam == "F1.d2" && k % 4 != 0 {
            continue;
        }
        v.push(CaseSpec::Expr { fam, ta, tr, sink, e });
    }
}

/// Programs with a C meaning the reference interpreter can judge (families F1, F2, F3, F4c, F7).
pub fn ref_cases(tier: Tier) -> Vec<CaseSpec> {
    let mut v = Vec::new();
    push_f1(&mut v, tier, false);
    for c in gen2::f2(tier) {
        v.push(CaseSpec::Full(Box::new(c)));
    }
    for c in gen2::f7() {
        v.push(CaseSpec::Full(Box::new(c)));
    }
    for c in gen3::f2_flow(tier) {
        v.push(CaseSpec::Full(Box::new(c)));
    }
    for c in gen3::f_w16k(tier) {
        v.push(CaseSpec::Full(Box::new(c)));
    }
    for c in gen3::f2_fnflow(tier) {
        v.push(CaseSpec::Full(Box::new(c)));
    }
    for c in gen3::f1_nest() {
        v.push(CaseSpec::Full(Box::new(c)));
    }
    for c in gen3::f6_ptr() {
        v.push(CaseSpec::Full(Box::new(c)));
    }
    for c in gen3::f2_carry() {
        v.push(CaseSpec::Full(Box::new(c)));
    }
    for c in gen3::f1_sext() {
        v.push(CaseSpec::Full(Box::new(c)));
    }
    for c in gen4::f2_callflags().into_iter().chain(gen4::f1_condval()).chain(gen4::f2_regflags()).chain(gen4::f11_ref()) {
        v.push(CaseSpec::Full(Box::new(c)));
    }
    for (c, _names, _mask) in gen2::f3(tier, false) {
        v.push(CaseSpec::Full(Box::new(c)));
    }
    for idxs in gen2::f4_indices(tier, true) {
        v.push(CaseSpec::Seq(idxs.iter().map(|x| *x as u8).collect()));
    }
    v
}

/// Reference-judged programs used by C01 only (added after the C15 known cases were last harvested:
/// C15 enumerates rewrite sites over `ref_cases`, and its lists are tied to that set).
pub fn ref_cases_c01(tier: Tier) -> Vec<CaseSpec> {
    let mut v = ref_cases(tier);
    for c in gen4::f2_elseflags().into_iter().chain(gen4::f0_pinned_ref()) {
        v.push(CaseSpec::Full(Box::new(c)));
    }
    v
}

/// Everything that compiles and can be executed, including programs with explicit hardware
/// accesses, inline assembly, inline subsets, large bodies and non-default memory classes.
pub fn exec_cases(tier: Tier) -> Vec<CaseSpec> {
    let mut v = Vec::new();
    for idxs in gen2::f4_indices(tier, false) {
        v.push(CaseSpec::Seq(idxs.iter().map(|x| *x as u8).collect()));
    }
    for (c, _names, mask) in gen2::f3(tier, true) {
        if mask != 0 {
            v.push(CaseSpec::Full(Box::new(c)));
        }
    }
    for c in gen2::f8(tier) {
        v.push(CaseSpec::Full(Box::new(c)));
    }
    for c in gen2::f9(tier) {
        v.push(CaseSpec::Full(Box::new(c)));
    }
    for c in crate::props::c14::corpus_cases() {
        v.push(CaseSpec::Full(Box::new(c)));
    }
    push_f1(&mut v, tier, tier == Tier::Quick);
    for c in gen2::f2(tier) {
        v.push(CaseSpec::Full(Box::new(c)));
    }
    for c in gen2::f7() {
        v.push(CaseSpec::Full(Box::new(c)));
    }
    for c in gen3::f2_flow(tier) {
        v.push(CaseSpec::Full(Box::new(c)));
    }
    for c in gen3::f_w16k(tier) {
        v.push(CaseSpec::Full(Box::new(c)));
    }
    for c in gen3::f2_fnflow(tier) {
        v.push(CaseSpec::Full(Box::new(c)));
    }
    for c in gen3::f1_nest() {
        v.push(CaseSpec::Full(Box::new(c)));
    }
    for c in gen3::f6_ptr() {
        v.push(CaseSpec::Full(Box::new(c)));
    }
    for c in gen3::f2_carry() {
        v.push(CaseSpec::Full(Box::new(c)));
    }
    for c in gen3::f1_sext() {
        v.push(CaseSpec::Full(Box::new(c)));
    }
    for c in gen4::f2_callflags().into_iter().chain(gen4::f1_condval()).chain(gen4::f2_regflags()).chain(gen4::f2_elseflags()).chain(gen4::f11_directed()).chain(gen4::f0_pinned()) {
        v.push(CaseSpec::Full(Box::new(c)));
    }
    for (c, _names, _mask) in gen2::f3(tier, false) {
        v.push(CaseSpec::Full(Box::new(c)));
    }
    v
}

pub fn family_counts(v: &[CaseSpec]) -> std::collections::BTreeMap<String, u64> {
    let mut fam = std::collections::BTreeMap::new();
    for c in v {
        *fam.entry(c.family()).or_insert(0u64) += 1;
    }
    fam
}
