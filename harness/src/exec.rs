//! Prepare (compile + assemble + bind) a program and execute it on the emulator and on the
//! reference interpreter from enumerated input states.

use crate::asm65::{self, cell_addr, AsmOptions, Image};
use crate::ast::*;
use crate::cref::{self, Abort, Binding, Dialect, Interp};
use crate::drv::{self, ErrInfo, Outcome, Record};
use crate::emu65::{self, AccKind, Cpu, Stop};
use std::collections::HashMap;

pub const RAM_LO: (usize, usize) = (0x0000, 0x0200);
pub const RAM_SPLIT: (usize, usize) = (0x1000, 0x2000);
pub const CANARY_LOW: u16 = 0x7F;
pub const DUMMY_ADDR: u16 = 0x2D;

#[derive(Debug, Clone)]
pub enum PrepFail {
    Rejected(ErrInfo),
    Panic { loc: String, msg: String },
    AsmErrors(Vec<String>, Box<Record>),
    Layout(Vec<String>),
    Bind(String),
}

pub struct Prepared {
    pub rec: Box<Record>,
    pub img: Image,
    pub entry: u16,
    pub inline_sizes: HashMap<String, u32>,
}

pub fn compile_and_assemble(src: &str, opts: &[&str], inline_sizes: HashMap<String, u32>) -> Result<Prepared, PrepFail> {
    let (out, _tr) = drv::compile_src(src.as_bytes(), opts);
    let rec = match out {
        Outcome::Ok(r) => r,
        Outcome::Err(e) => return Err(PrepFail::Rejected(e)),
        Outcome::Panic { loc, msg } => return Err(PrepFail::Panic { loc, msg }),
    };
    let img = asm65::assemble(&rec, &AsmOptions { inline_sizes: &inline_sizes, extra_symbols: &[] });
    let (lay, other): (Vec<String>, Vec<String>) = img.errors.iter().cloned().partition(|e| e.starts_with("layout:"));
    if !lay.is_empty() {
        return Err(PrepFail::Layout(lay));
    }
    if !other.is_empty() {
        return Err(PrepFail::AsmErrors(other, rec));
    }
    let entry = match img.func("main") {
        Some(f) => f.start,
        None => return Err(PrepFail::Bind("no main".into())),
    };
    Ok(Prepared { rec, img, entry, inline_sizes })
}

/// One enumerated input: object name ("X", "Y" or a global scalar) and its candidate values.
#[derive(Debug, Clone, PartialEq, Eq, Hash)]
pub struct InputVar {
    pub name: String,
    pub values: Vec<i32>,
}

pub const V8: [i32; 7] = [0, 1, 2, 0x7F, 0x80, 0xFE, 0xFF];
pub const V16: [i32; 8] = [0, 1, 0xFF, 0x100, 0x7FFF, 0x8000, 0xFFFE, 0xFFFF];

#[derive(Debug, Clone, PartialEq, Eq, Hash)]
pub struct FinalState {
    pub ram_lo: Vec<u8>,
    pub ram_split: Vec<u8>,
    pub x: u8,
    pub y: u8,
    pub hw: Vec<(u8, u16, u8)>,
}

pub struct Machine {
    pub cpu: Cpu,
    base_lo: Vec<u8>,
    base_split: Vec<u8>,
    pub logged: Vec<u16>,
    pub regs_ok: Vec<u16>,
}

/// Default fill for RAM objects so that nothing is accidentally zero / equal.
pub fn default_fill(addr: u16) -> u8 {
    let k = (addr as u32).wrapping_mul(37).wrapping_add(11);
    (k & 0xff) as u8
}

pub const ARRAY_PATTERN: [u8; 8] = [0x11, 0x80, 0x7F, 0xFE, 0x03, 0xC4, 0x01, 0x5A];

impl Machine {
    pub fn new(prep: &Prepared, prog: Option<&Program>) -> Machine {
        let mut cpu = Cpu::new();
        prep.img.load_into(&mut cpu);
        // everything outside RAM regions is unmapped for writes (faults as "ROM")
        for a in 0..65536usize {
            let in_ram = (a >= RAM_LO.0 && a < RAM_LO.1) || (a >= RAM_SPLIT.0 && a < RAM_SPLIT.1);
            if !in_ram {
                cpu.attr[a] |= emu65::A_ROM;
            }
        }
        // initial RAM contents
        for a in RAM_LO.0..0x100 {
            cpu.mem[a] = default_fill(a as u16);
        }
        for a in RAM_SPLIT.0..RAM_SPLIT.1 {
            cpu.mem[a] = default_fill(a as u16);
        }
        // arrays get the fixed pattern; pointers point to the first RAM array, if any
        let mut first_array: Option<u16> = None;
        if let Some(p) = prog {
            for d in &p.globals {
                if let DeclKind::Array(ty, n) = &d.kind {
                    if let (Some(vi), Some(a)) = (prep.rec.vars.iter().find(|v| v.name == d.name), prep.img.var_addr.get(&d.name)) {
                        let ca = cell_addr(&prep.rec, vi, *a);
                        if first_array.is_none() && ty.bits() == 8 {
                            first_array = Some(*a);
                        }
                        let bytes = if ty.bits() == 8 { *n } else { 2 * *n };
                        for k in 0..bytes {
                            cpu.mem[ca as usize + k] = ARRAY_PATTERN[k % 8];
                        }
                    }
                }
            }
            // scalars get a fill that depends on their name only (so that two placements of the
            // same program start from the same values)
            for d in &p.globals {
                if let DeclKind::Scalar(ty) = &d.kind {
                    if let (Some(vi), Some(a)) = (prep.rec.vars.iter().find(|v| v.name == d.name), prep.img.var_addr.get(&d.name)) {
                        let ca = cell_addr(&prep.rec, vi, *a);
                        let h = crate::engine::hash64(&d.name);
                        cpu.mem[ca as usize] = (h & 0xff) as u8;
                        if ty.bits() == 16 {
                            cpu.mem[ca as usize + 1] = ((h >> 8) & 0xff) as u8;
                        }
                    }
                }
            }
            for d in &p.globals {
                if let DeclKind::Ptr = &d.kind {
                    if let (Some(a), Some(t)) = (prep.img.var_addr.get(&d.name), first_array) {
                        cpu.mem[*a as usize] = (t & 0xff) as u8;
                        cpu.mem[*a as usize + 1] = (t >> 8) as u8;
                    }
                }
            }
        }
        let base_lo = cpu.mem[RAM_LO.0..RAM_LO.1].to_vec();
        let base_split = cpu.mem[RAM_SPLIT.0..RAM_SPLIT.1].to_vec();
        Machine { cpu, base_lo, base_split, logged: Vec::new(), regs_ok: Vec::new() }
    }

    pub fn set_logged(&mut self, addrs: &[u16]) {
        for a in addrs {
            self.cpu.attr[*a as usize] |= emu65::A_LOG;
            self.cpu.attr[*a as usize] &= !emu65::A_ROM;
        }
        self.logged = addrs.to_vec();
    }

    pub fn set_exec_logged(&mut self, addrs: &[u16]) {
        for a in addrs {
            self.cpu.attr[*a as usize] |= emu65::A_XLOG;
        }
    }

    pub fn reset(&mut self) {
        self.cpu.mem[RAM_LO.0..RAM_LO.1].copy_from_slice(&self.base_lo);
        self.cpu.mem[RAM_SPLIT.0..RAM_SPLIT.1].copy_from_slice(&self.base_split);
        self.cpu.reset_run_state();
        self.cpu.a = 0xA5;
        self.cpu.x = 0x3C;
        self.cpu.y = 0xC3;
    }

    pub fn snapshot(&self) -> FinalState {
        let mut lo = self.cpu.mem[RAM_LO.0..0x100].to_vec();
        lo[asm65::CCTMP as usize] = 0;
        lo[DUMMY_ADDR as usize] = 0;
        FinalState {
            ram_lo: lo,
            ram_split: self.cpu.mem[RAM_SPLIT.0..RAM_SPLIT.1].to_vec(),
            x: self.cpu.x,
            y: self.cpu.y,
            hw: self
                .cpu
                .log
                .iter()
                .map(|a| {
                    (
                        match a.kind {
                            AccKind::Read => 0u8,
                            AccKind::Write => 1,
                            AccKind::Exec => 2,
                        },
                        a.addr,
                        if a.kind == AccKind::Write { a.val } else { 0 },
                    )
                })
                .collect(),
        }
    }
}

#[derive(Debug, Clone)]
pub struct Poke {
    pub addr: u16,
    pub bytes: Vec<u8>,
}

#[derive(Debug, Clone, Default)]
pub struct InitState {
    pub pokes: Vec<Poke>,
    pub x: Option<u8>,
    pub y: Option<u8>,
    pub desc: Vec<(String, i32)>,
    /// state the program must not depend on, varied with the input index: bit0 C, bit1 Z, bit2 N,
    /// bit3 V on entry; A and the scratch byte cctmp from small patterns
    pub entry: u8,
}

pub const ENTRY_A: [u8; 4] = [0xA5, 0x00, 0x80, 0x01];
pub const ENTRY_TMP: [u8; 3] = [0x00, 0xFF, 0x5A];

/// Enumerate the cartesian product of the input variables as concrete init states.
pub fn enumerate_inputs(prep: &Prepared, inputs: &[InputVar]) -> Result<Vec<InitState>, String> {
    let mut out = vec![InitState::default()];
    for iv in inputs {
        let mut next = Vec::with_capacity(out.len() * iv.values.len());
        for st in &out {
            for val in &iv.values {
                let mut s = st.clone();
                s.desc.push((iv.name.clone(), *val));
                if iv.name == "X" {
                    s.x = Some(*val as u8);
                } else if iv.name == "Y" {
                    s.y = Some(*val as u8);
                } else {
                    let vi = prep.rec.vars.iter().find(|v| v.name == iv.name).ok_or_else(|| format!("input {} not in record", iv.name))?;
                    let a = *prep.img.var_addr.get(&iv.name).ok_or_else(|| format!("input {} has no address", iv.name))?;
                    let ca = cell_addr(&prep.rec, vi, a);
                    let nb = asm65::var_bytes(vi);
                    let bytes = if nb == 1 { vec![(*val & 0xff) as u8] } else { vec![(*val & 0xff) as u8, ((*val >> 8) & 0xff) as u8] };
                    s.pokes.push(Poke { addr: ca, bytes });
                }
                next.push(s);
            }
        }
        out = next;
    }
    // few inputs: repeat them, so that several entry states (carry set / clear ...) are tried
    if !out.is_empty() && out.len() < 4 {
        let base = out.clone();
        while out.len() < 4 {
            out.extend(base.iter().cloned());
        }
    }
    for (k, st) in out.iter_mut().enumerate() {
        st.entry = (k % 48) as u8;
    }
    Ok(out)
}

pub const DEFAULT_BUDGET: u64 = 2_000_000;

pub fn run_emu(m: &mut Machine, entry: u16, init: &InitState, budget: u64) -> (Stop, FinalState) {
    m.reset();
    for p in &init.pokes {
        for (k, b) in p.bytes.iter().enumerate() {
            m.cpu.mem[p.addr as usize + k] = *b;
        }
    }
    if let Some(x) = init.x {
        m.cpu.x = x;
    }
    if let Some(y) = init.y {
        m.cpu.y = y;
    }
    m.cpu.c = init.entry & 1 != 0;
    m.cpu.z = init.entry & 2 != 0;
    m.cpu.n = init.entry & 4 != 0;
    m.cpu.v = init.entry & 8 != 0;
    m.cpu.a = ENTRY_A[(init.entry as usize >> 1) % 4];
    m.cpu.mem[asm65::CCTMP as usize] = ENTRY_TMP[(init.entry as usize) % 3];
    let s0 = m.cpu.s;
    let mut stop = m.cpu.call(entry, budget);
    if stop == Stop::Returned && m.cpu.s != s0 {
        stop = Stop::Fault(format!("stack pointer ${:02X} after return, expected ${:02X}", m.cpu.s, s0));
    }
    (stop, m.snapshot())
}

pub struct RefMachine {
    mem: Option<Box<[u8; 65536]>>,
    base_lo: Vec<u8>,
    base_split: Vec<u8>,
}

impl RefMachine {
    pub fn new(m: &Machine) -> RefMachine {
        let mut mem: Box<[u8; 65536]> = vec![0u8; 65536].into_boxed_slice().try_into().unwrap();
        mem.copy_from_slice(&m.cpu.mem[..]);
        mem[RAM_LO.0..RAM_LO.1].copy_from_slice(&m.base_lo);
        mem[RAM_SPLIT.0..RAM_SPLIT.1].copy_from_slice(&m.base_split);
        RefMachine { mem: Some(mem), base_lo: m.base_lo.clone(), base_split: m.base_split.clone() }
    }

    pub fn run(
        &mut self,
        prog: &Program,
        bind: &Binding,
        dialect: Dialect,
        init: &InitState,
        signed_char: bool,
        shr_logical: bool,
    ) -> Result<(FinalState, Vec<cref::Event>, Vec<(String, String)>), Abort> {
        let mut mem = self.mem.take().unwrap();
        mem[RAM_LO.0..RAM_LO.1].copy_from_slice(&self.base_lo);
        mem[RAM_SPLIT.0..RAM_SPLIT.1].copy_from_slice(&self.base_split);
        for p in &init.pokes {
            for (k, b) in p.bytes.iter().enumerate() {
                mem[p.addr as usize + k] = *b;
            }
        }
        let mut it = Interp::new(prog, bind, dialect, mem, init.x.unwrap_or(0x3C), init.y.unwrap_or(0xC3));
        it.plain_char_signed = signed_char;
        it.shr_logical = shr_logical;
        let r = it.run_main();
        let mut lo = it.mem[RAM_LO.0..0x100].to_vec();
        lo[asm65::CCTMP as usize] = 0;
        lo[DUMMY_ADDR as usize] = 0;
        let fs = FinalState { ram_lo: lo, ram_split: it.mem[RAM_SPLIT.0..RAM_SPLIT.1].to_vec(), x: it.x, y: it.y, hw: Vec::new() };
        let ev = std::mem::take(&mut it.events);
        let calls = std::mem::take(&mut it.calls);
        self.mem = Some(it.mem);
        r.map(|_| (fs, ev, calls))
    }
}

pub fn states_equal_ignoring_hw(a: &FinalState, b: &FinalState) -> bool {
    a.x == b.x && a.y == b.y && a.ram_lo == b.ram_lo && a.ram_split == b.ram_split
}

pub fn describe_diff(prep: &Prepared, emu: &FinalState, rf: &FinalState) -> String {
    let mut s = String::new();
    if emu.x != rf.x {
        s.push_str(&format!("X: emu={:#x} ref={:#x}; ", emu.x, rf.x));
    }
    if emu.y != rf.y {
        s.push_str(&format!("Y: emu={:#x} ref={:#x}; ", emu.y, rf.y));
    }
    let name_of = |addr: u16| -> String {
        for (n, a) in &prep.img.var_addr {
            let sz = *prep.img.var_size.get(n).unwrap_or(&1);
            let vi = prep.rec.vars.iter().find(|v| &v.name == n);
            let ca = match vi {
                Some(vi) => cell_addr(&prep.rec, vi, *a),
                None => *a,
            };
            if addr >= ca && addr < ca + sz {
                return format!("{}+{}", n, addr - ca);
            }
        }
        format!("${:04X}", addr)
    };
    for (i, (a, b)) in emu.ram_lo.iter().zip(rf.ram_lo.iter()).enumerate() {
        if a != b {
            s.push_str(&format!("{}: emu={:#x} ref={:#x}; ", name_of(i as u16), a, b));
        }
    }
    for (i, (a, b)) in emu.ram_split.iter().zip(rf.ram_split.iter()).enumerate() {
        if a != b {
            s.push_str(&format!("{}: emu={:#x} ref={:#x}; ", name_of((RAM_SPLIT.0 + i) as u16), a, b));
        }
    }
    s
}

pub fn hash_state(fs: &FinalState) -> u64 {
    use std::hash::{Hash, Hasher};
    let mut h = std::collections::hash_map::DefaultHasher::new();
    fs.hash(&mut h);
    h.finish()
}

/// Compare two final states on program-visible objects only: bytes that belong to a local
/// variable or parameter (VarInfo.global == false) of either compilation are ignored.
pub fn states_equal_on_globals(pa: &Prepared, fa: &FinalState, pb: &Prepared, fb: &FinalState) -> bool {
    if fa.x != fb.x || fa.y != fb.y || fa.ram_split != fb.ram_split {
        return false;
    }
    let mut ignore = vec![false; fa.ram_lo.len()];
    for p in [pa, pb] {
        for v in &p.rec.vars {
            if !v.global {
                if let Some(a) = p.img.var_addr.get(&v.name) {
                    let n = asm65::var_bytes(v) as usize;
                    for k in 0..n {
                        if (*a as usize + k) < ignore.len() {
                            ignore[*a as usize + k] = true;
                        }
                    }
                }
            }
        }
    }
    fa.ram_lo.iter().zip(fb.ram_lo.iter()).enumerate().all(|(i, (x, y))| ignore[i] || x == y)
}

/// Bytes of a variable (by name) in a final state.
pub fn var_bytes_of(p: &Prepared, fs: &FinalState, name: &str) -> Vec<u8> {
    let vi = match p.rec.vars.iter().find(|v| v.name == name) {
        Some(v) => v,
        None => return vec![],
    };
    let a = match p.img.var_addr.get(name) {
        Some(a) => cell_addr(&p.rec, vi, *a) as usize,
        None => return vec![],
    };
    let n = asm65::var_bytes(vi) as usize;
    let mut out = Vec::new();
    for k in 0..n {
        let ad = a + k;
        if ad < 0x100 {
            out.push(fs.ram_lo[ad]);
        } else if ad >= RAM_SPLIT.0 && ad < RAM_SPLIT.1 {
            out.push(fs.ram_split[ad - RAM_SPLIT.0]);
        }
    }
    out
}
