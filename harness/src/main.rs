#![allow(dead_code)]
mod asm65;
mod ast;
mod cref;
mod drv;
mod emu65;
mod engine;
mod exec;
mod corpus;
mod cparse;
mod gen;
mod gen2;
mod gen3;
mod gen4;
mod props;
mod sem;

use engine::Tier;
use std::collections::{BTreeSet, HashMap};

fn cmd_cc(args: &[String]) {
    let src = std::fs::read(&args[0]).expect("read source");
    let opts: Vec<&str> = args[1..].iter().map(|s| s.as_str()).collect();
    let (out, _tr) = drv::compile_src(&src, &opts);
    match &out {
        drv::Outcome::Ok(rec) => {
            for v in &rec.vars {
                println!("VAR {:?}", v);
            }
            let img = asm65::assemble(rec, &asm65::AsmOptions { inline_sizes: &HashMap::new(), extra_symbols: &[] });
            for f in &rec.funcs {
                println!("FUNC {} inline={} size_bytes={} removed={} fixes={}", f.name, f.inline, f.size_bytes, f.removed, f.fixes);
                print!("{}", f.text);
            }
            for f in &img.funcs {
                println!("IMG {} ${:04X}-${:04X} true={} ", f.name, f.start, f.end, f.encoded_size_true);
                for l in &f.lines {
                    println!("  {:04X} {} {:?}   | {}", l.addr, l.len, l.kind, l.text.trim());
                }
            }
            println!("SYMS {:?}", img.symbols);
            println!("ERRORS {:?}", img.errors);
            println!("CALLTREE {:?} INUSE {:?}", rec.call_tree, rec.in_use);
        }
        o => println!("{:?}", o),
    }
}

fn root_dir() -> String {
    std::env::var("VERIF_ROOT").unwrap_or_else(|_| "/verif".to_string())
}

fn main() {
    let args: Vec<String> = std::env::args().collect();
    if args.len() < 2 {
        eprintln!("usage: vcheck <selftest|cc|check|worker|solo|replay|count> ...");
        std::process::exit(2);
    }
    drv::install_panic_hook();
    match args[1].as_str() {
        "selftest" => {
            if let Err(e) = emu65::selftest() {
                eprintln!("emulator self-test failed: {}", e);
                std::process::exit(2);
            }
            println!("selftest ok");
        }
        "cc" => cmd_cc(&args[2..]),
        "pinned" => {
            // developer aid: which of the repository's test programs the harness front end reads
            let all = gen4::pinned_programs();
            let ok = gen4::f0_pinned();
            println!("pinned programs: {} extracted, {} become F0.pinned cases", all.len(), ok.len());
            if args.get(2).map(|s| s == "-v").unwrap_or(false) {
                for (n, src) in &all {
                    let r = std::panic::catch_unwind(|| cparse::parse_program(src));
                    match r {
                        Ok(Ok(_)) => println!("  ok   {}", n),
                        Ok(Err(e)) => println!("  skip {}: {}", n, e),
                        Err(_) => println!("  skip {}: front end panicked", n),
                    }
                }
            }
        }
        "count" => {
            let c = props::get(&args[2]).expect("unknown property");
            for t in [Tier::Quick, Tier::Thorough] {
                println!("{} {}: {} cases; bounds {}", args[2], t.name(), c.n_cases(t), c.bounds(t));
            }
        }
        "check" => {
            // check <ID> <tier> [jobs]
            let c = match props::get(&args[2]) {
                Some(c) => c,
                None => {
                    eprintln!("unknown property {}", args[2]);
                    std::process::exit(2);
                }
            };
            let tier = Tier::parse(&args[3]).expect("tier");
            let jobs = args.get(4).and_then(|s| s.parse::<usize>().ok()).unwrap_or_else(|| std::thread::available_parallelism().map(|n| n.get()).unwrap_or(8));
            let seed = std::env::var("VERIF_SEED").ok().and_then(|s| s.parse::<u64>().ok()).unwrap_or(0);
            if let Err(e) = emu65::selftest() {
                println!("MACHINERY-ERROR: emulator self-test failed: {}", e);
                std::process::exit(2);
            }
            let r = engine::orchestrate(c.as_ref(), tier, &root_dir(), jobs, seed);
            std::process::exit(r.exit);
        }
        "worker" => {
            // worker <ID> <tier> <shard> <nshards> <out> <seed> <deadline> <skiplist>
            let c = props::get(&args[2]).expect("unknown property");
            let tier = Tier::parse(&args[3]).expect("tier");
            let shard: usize = args[4].parse().unwrap();
            let nshards: usize = args[5].parse().unwrap();
            let out = &args[6];
            let seed: u64 = args[7].parse().unwrap();
            let deadline: u64 = args[8].parse().unwrap();
            let mut skip = BTreeSet::new();
            if let Some(s) = args.get(9) {
                for x in s.split(',') {
                    if let Ok(k) = x.parse::<usize>() {
                        skip.insert(k);
                    }
                }
            }
            std::process::exit(engine::worker(c.as_ref(), tier, shard, nshards, &skip, out, seed, deadline));
        }
        "c05run" => {
            // c05run [--full] <corpus idx>...   (run under the getrandom shim by the C05 check)
            let full = args.iter().any(|a| a == "--full");
            println!("C05JSON {}", serde_json::json!({"probe": props::c05::probe_order()}));
            for a in &args[2..] {
                if let Ok(i) = a.parse::<usize>() {
                    println!("C05JSON {}", props::c05::digest_of(i, full));
                }
            }
        }
        "solo" => {
            // solo <ID> <tier> <idx> [out]
            let c = props::get(&args[2]).expect("unknown property");
            let tier = Tier::parse(&args[3]).expect("tier");
            let idx: usize = args[4].parse().unwrap();
            let out = args.get(5).map(|s| s.as_str());
            std::process::exit(engine::solo(c.as_ref(), tier, idx, out, out.is_some()));
        }
        "replay" => {
            let txt = std::fs::read_to_string(&args[2]).expect("read replay file");
            let v: serde_json::Value = serde_json::from_str(&txt).expect("replay json");
            let c = props::get(v["property"].as_str().unwrap()).expect("unknown property");
            let tier = Tier::parse(v["tier"].as_str().unwrap()).unwrap();
            let idx = v["idx"].as_u64().unwrap() as usize;
            let a = engine::solo(c.as_ref(), tier, idx, None, false);
            let b = engine::solo(c.as_ref(), tier, idx, None, true);
            if a != b {
                println!("MACHINERY-ERROR: replay is not deterministic");
                std::process::exit(2);
            }
            std::process::exit(a);
        }
        _ => {
            eprintln!("unknown command");
            std::process::exit(2);
        }
    }
}
