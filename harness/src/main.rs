mod asm65;
mod drv;
mod emu65;

use std::collections::HashMap;

fn cmd_cc(args: &[String]) {
    let src = std::fs::read(&args[0]).expect("read source");
    let opts: Vec<&str> = args[1..].iter().map(|s| s.as_str()).collect();
    let (out, _tr) = drv::compile_src(&src, &opts);
    match &out {
        drv::Outcome::Ok(rec) => {
            for v in &rec.vars {
                println!("VAR {:?}", v);
            }
            let img = asm65::assemble(rec, &asm65::AsmOptions { inline_sizes: &HashMap::new(), extra_symbols: &[] });
            for f in &rec.funcs {
                println!("FUNC {} inline={} size_bytes={} removed={} fixes={}", f.name, f.inline, f.size_bytes, f.removed, f.fixes);
                print!("{}", f.text);
            }
            for f in &img.funcs {
                println!("IMG {} ${:04X}-${:04X} true={} ", f.name, f.start, f.end, f.encoded_size_true);
                for l in &f.lines {
                    println!("  {:04X} {} {:?}   | {}", l.addr, l.len, l.kind, l.text.trim());
                }
            }
            println!("SYMS {:?}", img.symbols);
            println!("ERRORS {:?}", img.errors);
            println!("CALLTREE {:?} INUSE {:?}", rec.call_tree, rec.in_use);
        }
        o => println!("{:?}", o),
    }
}

fn main() {
    let args: Vec<String> = std::env::args().collect();
    if args.len() < 2 {
        eprintln!("usage: vcheck <selftest|cc|check|worker|replay> ...");
        std::process::exit(2);
    }
    drv::install_panic_hook();
    match args[1].as_str() {
        "selftest" => {
            if let Err(e) = emu65::selftest() {
                eprintln!("emulator self-test failed: {}", e);
                std::process::exit(2);
            }
            println!("selftest ok");
        }
        "cc" => cmd_cc(&args[2..]),
        _ => {
            eprintln!("unknown command");
            std::process::exit(2);
        }
    }
}
