//! Bounded exhaustive generators of program families (shared alphabets, see DESIGN.md §3).

use crate::ast::*;
use crate::engine::Tier;
use crate::sem::{cap_inputs, derive_inputs, SemCase};
use std::collections::BTreeMap;

/// Declaration preset D0.
pub fn d0(ta: Ty, tr: Ty) -> Vec<Decl> {
    vec![
        Decl::scalar("a", ta),
        Decl::scalar("b", ta),
        Decl::scalar("c", ta),
        Decl::scalar("r", tr),
        Decl::scalar("s", Ty::I16),
        Decl::scalar("t", Ty::I16),
        Decl::scalar("u", Ty::U16),
        Decl::array("arr", Ty::U8, 4),
        Decl::const_array("tab", Ty::U8, &[1, 2, 0x80, 0xff]),
        Decl::array("sarr", Ty::I16, 2),
        Decl::ptr("p"),
    ]
}

pub fn main_prog(globals: Vec<Decl>, body: Vec<S>) -> Program {
    Program { globals, funcs: vec![Func::new("main", None, vec![], body)] }
}

// ---------------------------------------------------------------------------------------
// evaluation-order safety (C leaves it unspecified; such programs are never generated)

fn names_read(e: &E, out: &mut Vec<String>) {
    match e {
        E::Lit(..) | E::CharLit(..) | E::Sizeof(..) => {}
        E::Var(n) | E::Deref(n) | E::AddrOf(n) => out.push(n.clone()),
        E::Idx(a, i) => {
            out.push(a.clone());
            names_read(i, out);
        }
        E::Un(_, a) | E::Paren(a) => names_read(a, out),
        E::Bin(_, a, b) | E::Comma(a, b) => {
            names_read(a, out);
            names_read(b, out);
        }
        E::Asg(_, l, r) => {
            names_read(l, out);
            names_read(r, out);
        }
        E::Inc { e, .. } => names_read(e, out),
        E::Cond(c, a, b) => {
            names_read(c, out);
            names_read(a, out);
            names_read(b, out);
        }
        E::Call(_, args) => {
            for a in args {
                names_read(a, out);
            }
        }
    }
}

fn base_name(e: &E) -> Option<String> {
    match e {
        E::Var(n) | E::Deref(n) => Some(n.clone()),
        E::Idx(a, _) => Some(a.clone()),
        E::Paren(a) => base_name(a),
        _ => None,
    }
}

fn names_modified(e: &E, out: &mut Vec<String>) {
    match e {
        E::Asg(_, l, r) => {
            if let Some(n) = base_name(l) {
                out.push(n);
            }
            names_modified(l, out);
            names_modified(r, out);
        }
        E::Inc { e, .. } => {
            if let Some(n) = base_name(e) {
                out.push(n);
            }
            names_modified(e, out);
        }
        E::Idx(_, i) => names_modified(i, out),
        E::Un(_, a) | E::Paren(a) => names_modified(a, out),
        E::Bin(_, a, b) | E::Comma(a, b) => {
            names_modified(a, out);
            names_modified(b, out);
        }
        E::Cond(c, a, b) => {
            names_modified(c, out);
            names_modified(a, out);
            names_modified(b, out);
        }
        E::Call(_, args) => {
            for a in args {
                names_modified(a, out);
            }
        }
        _ => {}
    }
}

/// True if no object modified by a side effect inside `e` is mentioned anywhere else in `e`
/// (conservative: sequence points of && || ?: , are not exploited). `*p`/`p[..]` may alias
/// `arr`, so they are treated as the same object.
pub fn order_safe(e: &E) -> bool {
    let mut m = Vec::new();
    names_modified(e, &mut m);
    if m.is_empty() {
        return true;
    }
    let mut r = Vec::new();
    names_read(e, &mut r);
    let canon = |n: &String| -> String {
        if n == "p" {
            "arr".to_string()
        } else {
            n.clone()
        }
    };
    for n in &m {
        let cn = canon(n);
        let cnt = r.iter().filter(|x| canon(x) == cn).count();
        if cnt != 1 {
            return false;
        }
    }
    true
}

// ---------------------------------------------------------------------------------------
// F1.expr

#[derive(Clone)]
pub struct Alphabet {
    pub leaves: Vec<E>,
    pub unops: Vec<UnOp>,
    pub binops: Vec<BinOp>,
    pub shift_counts: Vec<i32>,
    pub incdec_targets: Vec<E>,
    pub cond_conds: Vec<E>,
}

pub fn exprs_depth1(al: &Alphabet) -> Vec<E> {
    let mut v = Vec::new();
    for op in &al.unops {
        for l in &al.leaves {
            v.push(un(*op, l.clone()));
        }
    }
    for op in &al.binops {
        for x in &al.leaves {
            for y in &al.leaves {
                v.push(bin(*op, x.clone(), y.clone()));
            }
        }
    }
    for x in &al.leaves {
        for k in &al.shift_counts {
            v.push(bin(BinOp::Shl, x.clone(), lit(*k)));
            v.push(bin(BinOp::Shr, x.clone(), lit(*k)));
        }
    }
    for t in &al.incdec_targets {
        for pre in [true, false] {
            for inc in [true, false] {
                v.push(E::Inc { pre, inc, e: Box::new(t.clone()) });
            }
        }
    }
    for c in &al.cond_conds {
        for (x, y) in [(0usize, 1usize), (1, 0), (2, 3)] {
            if x < al.leaves.len() && y < al.leaves.len() {
                v.push(cond(c.clone(), al.leaves[x].clone(), al.leaves[y].clone()));
            }
        }
    }
    v.retain(order_safe);
    v.retain(|e| !has_const_only_op(e));
    v
}

fn is_const(e: &E) -> bool {
    match e {
        E::Lit(..) | E::CharLit(..) | E::Sizeof(..) => true,
        E::Un(_, a) | E::Paren(a) => is_const(a),
        E::Bin(_, a, b) => is_const(a) && is_const(b),
        E::Cond(c, a, b) => is_const(c) && is_const(a) && is_const(b),
        _ => false,
    }
}

/// constant folding is C10's subject: operators whose operands are all constants are left out here
pub fn has_const_only_op(e: &E) -> bool {
    match e {
        E::Lit(..) | E::CharLit(..) | E::Sizeof(..) | E::Var(_) | E::Deref(_) | E::AddrOf(_) => false,
        E::Idx(_, i) => has_const_only_op(i),
        E::Un(UnOp::Neg, a) if matches!(**a, E::Lit(..)) => false,
        E::Un(_, a) => is_const(a) || has_const_only_op(a),
        E::Paren(a) => has_const_only_op(a),
        E::Bin(_, a, b) => (is_const(a) && is_const(b)) || has_const_only_op(a) || has_const_only_op(b),
        E::Asg(_, l, r) => has_const_only_op(l) || has_const_only_op(r),
        E::Comma(a, b) => has_const_only_op(a) || has_const_only_op(b),
        E::Inc { e, .. } => has_const_only_op(e),
        E::Cond(c, a, b) => is_const(c) || has_const_only_op(c) || has_const_only_op(a) || has_const_only_op(b),
        E::Call(_, args) => args.iter().any(has_const_only_op),
    }
}

/// depth-2 expressions with exactly one compound (depth-1) operand
pub fn exprs_depth2(al: &Alphabet, d1: &[E], side_leaves: &[E], ops2: &[BinOp], un2: &[UnOp]) -> Vec<E> {
    let mut v = Vec::new();
    for op in un2 {
        for x in d1 {
            v.push(un(*op, x.clone()));
        }
    }
    for op in ops2 {
        for x in d1 {
            for l in side_leaves {
                v.push(bin(*op, x.clone(), l.clone()));
                v.push(bin(*op, l.clone(), x.clone()));
            }
        }
    }
    let _ = al;
    v.retain(order_safe);
    v.retain(|e| !has_const_only_op(e));
    v
}

#[derive(Clone, Copy, PartialEq, Eq, Debug)]
pub enum Sink {
    R,
    X,
    Y,
    ArrX,
    S16,
    U16,
    IfElse,
    Ret,
    Arg,
}

pub fn sink_stmt(sink: Sink, e: E) -> (Vec<S>, Vec<Func>) {
    match sink {
        Sink::R => (vec![sexpr(asg(var("r"), e))], vec![]),
        Sink::X => (vec![sexpr(asg(var("X"), e))], vec![]),
        Sink::Y => (vec![sexpr(asg(var("Y"), e))], vec![]),
        Sink::ArrX => (vec![sexpr(asg(idx("arr", var("X")), e))], vec![]),
        Sink::S16 => (vec![sexpr(asg(var("s"), e))], vec![]),
        Sink::U16 => (vec![sexpr(asg(var("u"), e))], vec![]),
        Sink::IfElse => (vec![S::If(e, Box::new(sexpr(asg(var("r"), lit(1)))), Some(Box::new(sexpr(asg(var("r"), lit(2))))))], vec![]),
        Sink::Ret => (
            vec![sexpr(asg(var("r"), call("f", vec![])))],
            vec![Func::new("f", Some(Ty::U8), vec![], vec![S::Return(Some(e))])],
        ),
        Sink::Arg => (
            vec![sexpr(asg(var("r"), call("g", vec![e])))],
            vec![Func::new("g", Some(Ty::U8), vec![Decl::scalar("v", Ty::U8)], vec![S::Return(Some(var("v")))])],
        ),
    }
}

fn mentions(e: &E, name: &str) -> bool {
    let mut r = Vec::new();
    names_read(e, &mut r);
    r.iter().any(|n| n == name)
}

/// Side conditions of an (expression, sink) pair: the sink must not collide with side effects inside e
pub fn expr_case_ok(sink: Sink, e: &E) -> bool {
    if !matches!(sink, Sink::IfElse | Sink::Ret | Sink::Arg) {
        let mut m = Vec::new();
        names_modified(e, &mut m);
        let tgt = match sink {
            Sink::R => "r",
            Sink::X => "X",
            Sink::Y => "Y",
            Sink::ArrX => "arr",
            Sink::S16 => "s",
            Sink::U16 => "u",
            _ => "",
        };
        if m.iter().any(|n| n == tgt || (tgt == "arr" && n == "p")) {
            return false;
        }
        if sink == Sink::ArrX && m.iter().any(|n| n == "X") {
            return false;
        }
    }
    true
}

pub fn build_expr_case(family: &str, ta: Ty, tr: Ty, sink: Sink, e: &E, extra_opts: &[&str], wide: bool) -> Option<SemCase> {
    if !expr_case_ok(sink, e) {
        return None;
    }
    let (body, mut funcs) = sink_stmt(sink, e.clone());
    let mut prog = Program { globals: d0(ta, tr), funcs: vec![] };
    funcs.push(Func::new("main", None, vec![], body));
    prog.funcs = funcs;
    let inputs = cap_inputs(derive_inputs(&prog, wide), if wide { 70000 } else { 400 });
    let tags = feature_tags(e, sink, ta);
    Some(SemCase { family: family.to_string(), prog, inputs, extra_opts: extra_opts.iter().map(|s| s.to_string()).collect(), logged: vec![], tags })
}

pub fn leaves8() -> Vec<E> {
    vec![
        var("a"),
        var("b"),
        var("X"),
        var("Y"),
        lit(0),
        lit(1),
        lit(2),
        E::Lit(0x7f, true),
        E::Lit(0x80, true),
        E::Lit(0xff, true),
        idx("arr", var("X")),
        idx("arr", var("Y")),
        idx("arr", lit(1)),
        idx("arr", var("a")),
        idx("tab", var("X")),
        idx("tab", var("Y")),
        idx("p", var("Y")),
        E::Deref("p".into()),
    ]
}

pub fn leaves16() -> Vec<E> {
    vec![var("s"), var("t"), var("u"), E::Lit(0x100, true), E::Lit(0x1234, true), idx("sarr", var("X"))]
}

pub const ARITH: [BinOp; 5] = [BinOp::Add, BinOp::Sub, BinOp::And, BinOp::Or, BinOp::Xor];
pub const CMPS: [BinOp; 6] = [BinOp::Eq, BinOp::Ne, BinOp::Lt, BinOp::Le, BinOp::Gt, BinOp::Ge];
pub const LOGIC: [BinOp; 2] = [BinOp::LAnd, BinOp::LOr];
pub const UNOPS: [UnOp; 3] = [UnOp::Neg, UnOp::BNot, UnOp::LNot];

pub fn all_binops() -> Vec<BinOp> {
    let mut v = ARITH.to_vec();
    v.extend_from_slice(&CMPS);
    v.extend_from_slice(&LOGIC);
    v
}

/// The F1 family: list of (sub-family name, type config, sink, expression)
pub struct F1 {
    pub cases: Vec<(&'static str, Ty, Ty, Sink, E)>,
}

pub fn f1(tier: Tier) -> F1 {
    let mut cases: Vec<(&'static str, Ty, Ty, Sink, E)> = Vec::new();
    let l8 = leaves8();
    let l16 = leaves16();
    let quick = tier == Tier::Quick;
    // --- depth 0/1 over 8-bit leaves
    let al8 = Alphabet {
        leaves: if quick { vec![var("a"), var("b"), var("X"), lit(0), lit(1), E::Lit(0x80, true), idx("arr", var("X")), idx("tab", var("Y")), idx("p", var("Y"))] } else { l8.clone() },
        unops: UNOPS.to_vec(),
        binops: all_binops(),
        shift_counts: if quick { vec![1, 7] } else { vec![1, 2, 7, 8] },
        incdec_targets: vec![var("a"), var("X"), var("Y"), idx("arr", var("X")), var("s")],
        cond_conds: vec![var("a"), bin(BinOp::Lt, var("a"), var("b")), un(UnOp::LNot, var("X"))],
    };
    let d1_8 = exprs_depth1(&al8);
    let cfgs: Vec<(Ty, Ty)> = vec![(Ty::U8, Ty::U8), (Ty::S8, Ty::S8)];
    let sinks1: Vec<Sink> = vec![Sink::R, Sink::X, Sink::Y, Sink::ArrX, Sink::S16, Sink::IfElse, Sink::Ret, Sink::Arg];
    for (ta, tr) in &cfgs {
        for sink in &sinks1 {
            for l in &al8.leaves {
                cases.push(("F1.d0", *ta, *tr, *sink, l.clone()));
            }
            for e in &d1_8 {
                cases.push(("F1.d1", *ta, *tr, *sink, e.clone()));
            }
        }
    }
    // --- 16-bit: leaves mix
    let al16 = Alphabet {
        leaves: if quick { vec![var("s"), var("u"), var("a"), E::Lit(0x100, true), lit(1)] } else { let mut v = l16.clone(); v.push(var("a")); v.push(lit(1)); v.push(var("X")); v },
        unops: UNOPS.to_vec(),
        binops: all_binops(),
        shift_counts: if quick { vec![1, 8] } else { vec![1, 2, 7, 8] },
        incdec_targets: vec![var("s"), var("u")],
        cond_conds: vec![var("s"), bin(BinOp::Lt, var("s"), var("t"))],
    };
    let d1_16 = exprs_depth1(&al16);
    for (ta, tr) in &cfgs {
        for sink in [Sink::S16, Sink::U16, Sink::R, Sink::IfElse] {
            for e in &d1_16 {
                cases.push(("F1.w16", *ta, *tr, sink, e.clone()));
            }
        }
    }
    // --- depth 2, one compound operand
    let side: Vec<E> = if quick { vec![var("a"), lit(1)] } else { vec![var("a"), var("c"), lit(1), E::Lit(0x80, true), var("X"), idx("arr", var("Y"))] };
    let al_small = Alphabet {
        leaves: if quick { vec![var("a"), var("b"), lit(1), idx("arr", var("X"))] } else { vec![var("a"), var("b"), var("X"), lit(0), lit(1), E::Lit(0x80, true), idx("arr", var("X")), idx("tab", var("Y")), idx("p", var("Y"))] },
        unops: UNOPS.to_vec(),
        binops: all_binops(),
        shift_counts: vec![1],
        incdec_targets: vec![var("b"), var("X")],
        cond_conds: vec![var("b")],
    };
    let d1_small = exprs_depth1(&al_small);
    let ops2: Vec<BinOp> = all_binops();
    let d2 = exprs_depth2(&al_small, &d1_small, &side, &ops2, &UNOPS);
    let sinks2: Vec<Sink> = if quick { vec![Sink::R, Sink::IfElse] } else { vec![Sink::R, Sink::IfElse, Sink::X] };
    let cfgs2: Vec<(Ty, Ty)> = if quick { vec![(Ty::U8, Ty::U8)] } else { cfgs.clone() };
    for (ta, tr) in &cfgs2 {
        for sink in &sinks2 {
            for e in &d2 {
                cases.push(("F1.d2", *ta, *tr, *sink, e.clone()));
            }
        }
    }
    // --- F1.prec: x op1 y op2 z and unary/binary mixes without parentheses
    let mut prec_ops: Vec<(BinOp, Option<i32>)> = all_binops().into_iter().map(|o| (o, None)).collect();
    prec_ops.push((BinOp::Shl, Some(1)));
    prec_ops.push((BinOp::Shr, Some(1)));
    for (o1, k1) in &prec_ops {
        for (o2, k2) in &prec_ops {
            // both groupings printed with minimal parentheses: ((x o1 y) o2 z) and (x o1 (y o2 z))
            let y1 = k1.map(lit).unwrap_or(var("b"));
            let z = k2.map(lit).unwrap_or(var("c"));
            let left = bin(*o2, bin(*o1, var("a"), y1.clone()), z.clone());
            let mut both = vec![left];
            if k1.is_none() {
                both.push(bin(*o1, var("a"), bin(*o2, var("b"), z.clone())));
            }
            for e in both {
                for sink in [Sink::R, Sink::S16] {
                    cases.push(("F1.prec", Ty::U8, Ty::U8, sink, e.clone()));
                }
            }
        }
        for u in UNOPS {
            let y1 = k1.map(lit).unwrap_or(var("b"));
            let e1 = bin(*o1, un(u, var("a")), y1.clone());
            let e2 = un(u, bin(*o1, var("a"), y1));
            for e in [e1, e2] {
                cases.push(("F1.prec", Ty::U8, Ty::U8, Sink::R, e.clone()));
                cases.push(("F1.prec", Ty::S8, Ty::S8, Sink::R, e));
            }
        }
    }
    // ternary / assignment / comma mixes
    for o in all_binops() {
        let e1 = cond(bin(o, var("a"), var("b")), var("c"), lit(1));
        let e2 = cond(var("a"), bin(o, var("b"), var("c")), lit(1));
        let e3 = cond(var("a"), var("b"), bin(o, var("c"), lit(1)));
        let e4 = bin(o, cond(var("a"), var("b"), var("c")), lit(1));
        for e in [e1, e2, e3, e4] {
            cases.push(("F1.prec", Ty::U8, Ty::U8, Sink::R, e));
        }
    }
    F1 { cases }
}

pub fn f1_stats(f: &F1) -> BTreeMap<&'static str, usize> {
    let mut m = BTreeMap::new();
    for c in &f.cases {
        *m.entry(c.0).or_insert(0) += 1;
    }
    m
}

// ---------------------------------------------------------------------------------------
// feature tags (used by the developer-side harvest to group failing cases by root cause)

fn is_w16_leaf(e: &E) -> bool {
    match e {
        E::Var(n) => matches!(n.as_str(), "s" | "t" | "u"),
        E::Idx(a, _) => a == "sarr" || a == "ss",
        E::Lit(v, _) => !(-128..=255).contains(v),
        _ => false,
    }
}

fn any_node(e: &E, f: &dyn Fn(&E) -> bool) -> bool {
    if f(e) {
        return true;
    }
    match e {
        E::Idx(_, i) => any_node(i, f),
        E::Un(_, a) | E::Paren(a) => any_node(a, f),
        E::Bin(_, a, b) | E::Asg(_, a, b) | E::Comma(a, b) => any_node(a, f) || any_node(b, f),
        E::Inc { e, .. } => any_node(e, f),
        E::Cond(c, a, b) => any_node(c, f) || any_node(a, f) || any_node(b, f),
        E::Call(_, args) => args.iter().any(|a| any_node(a, f)),
        _ => false,
    }
}

fn is_boolish(e: &E) -> bool {
    match e {
        E::Bin(op, ..) => op.is_cmp() || op.is_logic(),
        E::Un(UnOp::LNot, _) => true,
        E::Paren(a) => is_boolish(a),
        _ => false,
    }
}

fn is_rel(op: BinOp) -> bool {
    matches!(op, BinOp::Lt | BinOp::Le | BinOp::Gt | BinOp::Ge)
}

fn is_reg(e: &E) -> bool {
    matches!(e, E::Var(n) if n == "X" || n == "Y")
}

fn is_mem_indexed(e: &E) -> bool {
    matches!(e, E::Idx(..) | E::Deref(_))
}

pub fn feature_tags(e: &E, sink: Sink, ta: Ty) -> Vec<&'static str> {
    let mut t = Vec::new();
    if any_node(e, &|x| matches!(x, E::Inc { .. })) {
        t.push("incdec-in-expr");
    }
    if any_node(e, &|x| matches!(x, E::Asg(..))) {
        t.push("assign-in-expr");
    }
    if matches!(sink, Sink::S16 | Sink::U16) || any_node(e, &is_w16_leaf) {
        t.push("w16");
    }
    // operands that make the generator borrow Y: *p and name[<variable or expression>]
    if any_node(e, &|x| match x {
        E::Deref(_) => true,
        E::Idx(_, i) => !matches!(**i, E::Var(ref n) if n == "X" || n == "Y") && !matches!(**i, E::Lit(..)),
        _ => false,
    }) {
        t.push("y-temp");
    }
    if ta.signed() && any_node(e, &|x| matches!(x, E::Bin(op, ..) if is_rel(*op))) {
        t.push("signed-rel");
    }
    if ta.signed() && any_node(e, &|x| matches!(x, E::Bin(BinOp::Shr, ..))) {
        t.push("signed-shr");
    }
    if any_node(e, &|x| matches!(x, E::Bin(op, a, b) if is_rel(*op) && (const_value(a) == Some(0) || const_value(b) == Some(0)))) {
        t.push("rel-zero");
    }
    if any_node(e, &|x| matches!(x, E::Bin(op, a, b) if op.is_cmp() && ((is_mem_indexed(a) && any_node(b, &is_reg)) || (any_node(a, &is_reg) && is_mem_indexed(b))))) {
        t.push("indexed-vs-reg");
    }
    // comparison / logical value used as an operand of another operator
    if any_node(e, &|x| match x {
        E::Bin(_, a, b) => is_boolish(a) || is_boolish(b),
        E::Un(_, a) => is_boolish(a),
        E::Cond(_, a, b) => is_boolish(a) || is_boolish(b),
        _ => false,
    }) {
        t.push("bool-as-operand");
    }
    if is_boolish(e) && !matches!(sink, Sink::R | Sink::IfElse) {
        t.push("bool-to-nonplain-sink");
    }
    if any_node(e, &|x| matches!(x, E::Cond(..))) {
        t.push("ternary");
    }
    if any_node(e, &|x| matches!(x, E::Bin(op, ..) if op.is_logic())) {
        t.push("logic");
    }
    if any_node(e, &|x| matches!(x, E::Un(UnOp::Neg, _) | E::Un(UnOp::BNot, _))) {
        t.push("neg-bnot");
    }
    if any_node(e, &|x| matches!(x, E::Bin(BinOp::Shl, ..) | E::Bin(BinOp::Shr, ..))) {
        t.push("shift");
    }
    t
}

fn walk_stmt_exprs(s: &S, f: &mut dyn FnMut(&E, bool)) {
    // callback: (expression, used_as_condition)
    match s {
        S::Expr(e) | S::Load(e) | S::Store(e) => f(e, false),
        S::If(c, a, b) => {
            f(c, true);
            walk_stmt_exprs(a, f);
            if let Some(b) = b {
                walk_stmt_exprs(b, f);
            }
        }
        S::While(c, b) | S::DoWhile(b, c) => {
            f(c, true);
            walk_stmt_exprs(b, f);
        }
        S::For(i, c, u, b) => {
            if let Some(i) = i {
                f(i, false);
            }
            if let Some(c) = c {
                f(c, true);
            }
            if let Some(u) = u {
                f(u, false);
            }
            walk_stmt_exprs(b, f);
        }
        S::Switch(e, cs) => {
            f(e, false);
            for c in cs {
                for s in &c.body {
                    walk_stmt_exprs(s, f);
                }
            }
        }
        S::Return(Some(e)) => f(e, false),
        S::Block(v) => {
            for s in v {
                walk_stmt_exprs(s, f);
            }
        }
        S::Decl(ds) => {
            for d in ds {
                if let Some(i) = &d.init {
                    f(i, false);
                }
            }
        }
        S::Label(_, s) => walk_stmt_exprs(s, f),
        _ => {}
    }
}

fn is_call(e: &E) -> bool {
    matches!(e, E::Call(..)) || matches!(e, E::Paren(a) if is_call(a))
}

fn is_leaf(e: &E) -> bool {
    matches!(e, E::Lit(..) | E::CharLit(..) | E::Var(_))
}

/// Feature tags of a whole program (union over its expressions), in priority order.
pub fn program_tags(p: &Program) -> Vec<&'static str> {
    let ta = p
        .globals
        .iter()
        .find_map(|d| match (&d.name[..], &d.kind) {
            ("a", DeclKind::Scalar(t)) => Some(*t),
            _ => None,
        })
        .unwrap_or(Ty::U8);
    let mut all: Vec<&'static str> = Vec::new();
    let mut add = |t: &'static str, all: &mut Vec<&'static str>| {
        if !all.contains(&t) {
            all.push(t);
        }
    };
    for f in &p.funcs {
        for s in &f.body {
            walk_stmt_exprs(s, &mut |e, is_cond| {
                // strip a top-level plain assignment: its rhs is what the sink analysis looks at
                let (sink, inner): (Sink, &E) = match e {
                    E::Asg(None, l, r) => {
                        let sk = match &**l {
                            E::Var(n) if matches!(n.as_str(), "s" | "t" | "u") => Sink::S16,
                            E::Var(n) if n == "X" => Sink::X,
                            E::Var(n) if n == "Y" => Sink::Y,
                            E::Idx(..) => Sink::ArrX,
                            _ => Sink::R,
                        };
                        (sk, &**r)
                    }
                    _ => (if is_cond { Sink::IfElse } else { Sink::R }, e),
                };
                let toplevel_incdec = matches!(e, E::Inc { e: t, .. } if matches!(**t, E::Var(_) | E::Idx(..)));
                let toplevel_opassign = matches!(e, E::Asg(Some(_), ..));
                for t in feature_tags(inner, sink, ta) {
                    if t == "incdec-in-expr" && toplevel_incdec {
                        continue;
                    }
                    if t == "assign-in-expr" && toplevel_opassign {
                        continue;
                    }
                    add(t, &mut all);
                }
                if any_node(e, &|x| matches!(x, E::Bin(_, a, b) if (is_call(a) && !is_leaf(b)) || (is_call(b) && !is_leaf(a)))) {
                    add("call-in-binop", &mut all);
                }
            });
        }
    }
    // stable priority
    let prio = [
        "incdec-in-expr", "assign-in-expr", "call-in-binop", "w16", "y-temp", "signed-rel", "signed-shr", "rel-zero", "indexed-vs-reg", "bool-as-operand", "bool-to-nonplain-sink", "ternary", "logic", "neg-bnot", "shift",
    ];
    let mut out: Vec<&'static str> = Vec::new();
    for t in prio {
        if all.contains(&t) {
            out.push(t);
        }
    }
    out
}

/// value of an expression the compiler can fold at compile time (None = not constant)
pub fn const_value(e: &E) -> Option<i32> {
    match e {
        E::Lit(v, _) | E::CharLit(_, v) => Some(*v),
        E::Paren(a) => const_value(a),
        E::Un(op, a) => {
            let v = const_value(a)?;
            Some(match op {
                UnOp::Neg => -v,
                UnOp::BNot => !v,
                UnOp::LNot => (v == 0) as i32,
            })
        }
        E::Bin(BinOp::LAnd, a, b) => match (const_value(a), const_value(b)) {
            (Some(0), _) => Some(0),
            (Some(x), Some(y)) => Some((x != 0 && y != 0) as i32),
            _ => None,
        },
        E::Bin(BinOp::LOr, a, b) => match (const_value(a), const_value(b)) {
            (Some(x), _) if x != 0 => Some(1),
            (Some(x), Some(y)) => Some((x != 0 || y != 0) as i32),
            _ => None,
        },
        E::Bin(op, a, b) => {
            let x = const_value(a)?;
            let y = const_value(b)?;
            Some(match op {
                BinOp::Add => x + y,
                BinOp::Sub => x - y,
                BinOp::And => x & y,
                BinOp::Or => x | y,
                BinOp::Xor => x ^ y,
                BinOp::Shl => x << (y & 15),
                BinOp::Shr => x >> (y & 15),
                BinOp::Lt => (x < y) as i32,
                BinOp::Le => (x <= y) as i32,
                BinOp::Gt => (x > y) as i32,
                BinOp::Ge => (x >= y) as i32,
                BinOp::Eq => (x == y) as i32,
                BinOp::Ne => (x != y) as i32,
                _ => return None,
            })
        }
        _ => None,
    }
}
