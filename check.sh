#!/bin/bash
# usage: check.sh <PROPERTY> <quick|thorough>
# Rebuilds the harness against /repo's current working tree (hooks enabled) and runs one check.
set -u
mkdir -p /verif/scratch
cd /verif/harness || exit 2
export CARGO_NET_OFFLINE=true
if ! cargo build --release --offline >/verif/scratch/build.log 2>&1; then
  mkdir -p /verif/scratch
  cargo build --release --offline 2>&1 | tail -40
  echo "MACHINERY-ERROR: harness build failed (does /repo still compile?)"
  exit 2
fi
if [ ! -f target/shim.so ]; then
  gcc -shared -fPIC -O2 shim/getrandom.c -o target/shim.so || { echo "MACHINERY-ERROR: shim build failed"; exit 2; }
fi
cd /verif
export VERIF_TIER="$2"
exec ./harness/target/release/vcheck check "$1" "$2"
