#!/usr/bin/env python3
"""Developer tool: validate the seeded property-breaking changes under /verif/seeded/<ID>-<k>/ in a
scratch worktree of /repo (never in /repo itself):
  1. patch.diff applied            -> the repository's own test suite still passes
  2. patch.diff + demo.diff        -> the demonstration test fails
  3. demo.diff only                -> the demonstration test passes
Usage: validate_seeds.py <worktree dir> [seed dir names ...]
The result is recorded in seeded/<ID>-<k>/meta.json under "validation"."""
import json, os, subprocess, sys, re

ROOT = '/verif/seeded'
wt = sys.argv[1]
seeds = sys.argv[2:] or sorted(d for d in os.listdir(ROOT) if re.fullmatch(r'C\d\d-\d+', d))
env = dict(os.environ, CARGO_NET_OFFLINE='true', CARGO_TARGET_DIR=wt + '/target')

def sh(cmd, cwd=wt):
    return subprocess.run(cmd, shell=True, cwd=cwd, env=env, capture_output=True, text=True)

def reset():
    sh('git checkout -- . && git clean -fdq -e target')

def tests(cmd):
    r = sh(cmd + ' 2>&1')
    out = r.stdout
    passed = sum(int(m) for m in re.findall(r'test result: \w+\. (\d+) passed', out))
    failed = sum(int(m) for m in re.findall(r'test result: \w+\. \d+ passed; (\d+) failed', out))
    return r.returncode, passed, failed, out

head = subprocess.run('git -C /repo rev-parse --short HEAD', shell=True, capture_output=True, text=True).stdout.strip()
if not os.path.isdir(wt):
    r = subprocess.run(f'git -C /repo worktree add --detach {wt} HEAD', shell=True, capture_output=True, text=True)
    if r.returncode != 0:
        print(r.stderr); sys.exit(2)
else:
    reset()
    sh(f'git checkout -q --detach {head}')

for sd in seeds:
    d = f'{ROOT}/{sd}'
    agent = json.load(open(d + '/agent_meta.json'))
    res = {'repo_head': head}
    def done(status, **kw):
        res['status'] = status; res.update(kw)
        mp = d + '/meta.json'
        meta = json.load(open(mp)) if os.path.exists(mp) else {}
        meta['validation'] = res
        json.dump(meta, open(mp, 'w'), indent=1)
        print(sd, status, flush=True)
    reset()
    if sh(f'git apply {d}/patch.diff').returncode != 0:
        done('patch-does-not-apply'); continue
    rc, np_, nf, out = tests('cargo test --offline')
    res['suite_with_patch'] = {'cmd': 'cargo test --offline', 'rc': rc, 'passed': np_, 'failed': nf}
    if rc != 0:
        done('suite-fails-with-patch', tail=out[-600:]); continue
    if sh(f'git apply {d}/demo.diff').returncode != 0:
        done('demo-does-not-apply'); continue
    cmd = agent['demo_cmd']
    rc, np_, nf, out = tests(cmd)
    res['demo_with_patch'] = {'cmd': cmd, 'rc': rc, 'passed': np_, 'failed': nf}
    if rc == 0 or nf == 0:
        done('demo-does-not-fail-with-patch'); continue
    # back to the clean tree plus the demonstration only (a reverse apply can land on a look-alike hunk)
    reset()
    if sh(f'git apply {d}/demo.diff').returncode != 0:
        done('demo-does-not-apply-alone'); continue
    rc, np_, nf, out = tests(cmd)
    res['demo_without_patch'] = {'cmd': cmd, 'rc': rc, 'passed': np_, 'failed': nf}
    done('valid' if (rc == 0 and np_ >= 1) else 'demo-fails-without-patch')
reset()
