#!/usr/bin/env python3
"""Developer tool: validate seeded property-breaking changes in a scratch worktree of /repo.
For each <dir>/patchK.diff + demoK.diff + metaK.json:
  1. patch applied            -> the repository's own test suite still passes
  2. patch + demo applied     -> the demonstration test fails
  3. demo only                -> the demonstration test passes
Usage: validate_seeds.py <seed root> <worktree dir> [ID ...]
Prints one JSON line per seed; never touches /repo's working tree."""
import json, os, subprocess, sys, re

root, wt = sys.argv[1], sys.argv[2]
ids = sys.argv[3:] or sorted(d for d in os.listdir(root) if re.fullmatch(r'C\d\d', d))
env = dict(os.environ, CARGO_NET_OFFLINE='true', CARGO_TARGET_DIR=wt + '/target')

def sh(cmd, cwd=wt):
    return subprocess.run(cmd, shell=True, cwd=cwd, env=env, capture_output=True, text=True)

def reset():
    sh('git checkout -- . && git clean -fdq -e target')

def tests(cmd):
    r = sh(cmd + ' 2>&1')
    out = r.stdout
    passed = sum(int(m) for m in re.findall(r'test result: \w+\. (\d+) passed', out))
    failed = sum(int(m) for m in re.findall(r'test result: \w+\. \d+ passed; (\d+) failed', out))
    return r.returncode, passed, failed, out

if not os.path.isdir(wt):
    r = subprocess.run(f'git -C /repo worktree add --detach {wt} HEAD', shell=True, capture_output=True, text=True)
    if r.returncode != 0:
        print(r.stderr); sys.exit(2)

for pid in ids:
    for k in (1, 2):
        d = f'{root}/{pid}/out' if os.path.isdir(f'{root}/{pid}/out') else f'{root}/{pid}'
        p, dm, mt = f'{d}/patch{k}.diff', f'{d}/demo{k}.diff', f'{d}/meta{k}.json'
        if not os.path.exists(p):
            continue
        meta = json.load(open(mt))
        res = {'id': pid, 'k': k}
        reset()
        if sh(f'git apply {p}').returncode != 0:
            res['status'] = 'patch-does-not-apply'; print(json.dumps(res), flush=True); continue
        rc, np_, nf, out = tests('cargo test --offline')
        res['suite_with_patch'] = {'rc': rc, 'passed': np_, 'failed': nf}
        if rc != 0:
            res['status'] = 'suite-fails-with-patch'; res['tail'] = out[-600:]; print(json.dumps(res), flush=True); continue
        if sh(f'git apply {dm}').returncode != 0:
            res['status'] = 'demo-does-not-apply'; print(json.dumps(res), flush=True); continue
        cmd = meta['demo_cmd']
        rc, np_, nf, out = tests(cmd)
        res['demo_with_patch'] = {'rc': rc, 'passed': np_, 'failed': nf}
        if rc == 0 or nf == 0:
            res['status'] = 'demo-does-not-fail-with-patch'; print(json.dumps(res), flush=True); continue
        if sh(f'git apply -R {p}').returncode != 0:
            res['status'] = 'cannot-revert'; print(json.dumps(res), flush=True); continue
        rc, np_, nf, out = tests(cmd)
        res['demo_without_patch'] = {'rc': rc, 'passed': np_, 'failed': nf}
        res['status'] = 'valid' if (rc == 0 and np_ >= 1) else 'demo-fails-without-patch'
        if res['status'] != 'valid':
            res['tail'] = out[-600:]
        print(json.dumps(res), flush=True)
reset()
