#!/usr/bin/env python3
"""Developer tool: extract the C programs of the repository's own generator tests (src/lib.rs,
`let input = "...";`) into harness/data/pinned.txt (one program per record, records separated by a
line '%%%% <test name>'). The file is committed; the harness embeds it (family F0.pinned)."""
import re, sys
src = open('/repo/src/lib.rs').read()
out = []
for m in re.finditer(r'fn (\w+)\(\) \{(.*?)\n    \}', src, re.S):
    name, body = m.group(1), m.group(2)
    mm = re.search(r'let input = (r#")?"?(.*?)("#|(?<!\\)");', body, re.S)
    if not mm:
        continue
    raw = mm.group(2)
    if mm.group(1):
        text = raw
    else:
        # rust escapes: \n \t \" \\ \r and line-continuation backslash-newline (skips leading blanks)
        text = re.sub(r'\\\n\s*', '', raw)
        text = text.replace('\\n', '\n').replace('\\t', '\t').replace('\\r', '\r').replace('\\"', '"').replace('\\\\', '\\')
    args = re.search(r'sargs\((\d)\)', body)
    out.append((name, text))
with open('/verif/harness/data/pinned.txt', 'w') as f:
    for n, t in out:
        f.write('%%%% ' + n + '\n' + t.rstrip('\n') + '\n')
print(len(out), 'programs')
