#!/usr/bin/env python3
"""Regenerate /verif/MANIFEST.json from the table below (developer tool)."""
import json

PROPS = [json.loads(l) for l in open('/verif/properties.jsonl')]
IDS = [p['id'] for p in PROPS]

COMMON_NOTE = "Trusted base: the harness's own 6502 emulator and assembler front end (self-tested at every run: ADC/SBC/CMP/shift flags over all operand/carry combinations, opcode table, cycle counts), its C reference interpreter (DESIGN.md 1.4) and the real cc6502 driven through compile() with a builder that mirrors src/tests/build.rs. Coverage is the stated bound; known findings are attributed by exact case identity (known_findings.json)."

CHECKS = {
 'C01': dict(level='exploration', tech='bounded exhaustive program enumeration + co-execution on an emulator against a reference interpreter',
   text="Every program of the enumerated families (expressions to depth 2 with one compound operand, all operator pairs without parentheses, control-flow templates, switch arrangements, calls, statement sequences) is compiled by the real compiler at -O0 and -O1 and executed from every input state of the enumerated domain; final memory/X/Y are compared with a C reference interpreter. Exhaustive within the family bounds, so a wrong branch, lost carry, clobbered register or stale flag in any covered shape is found and the smallest counterexample is reported.", ref='4 C01'),
 'C02': dict(level='exploration', tech='bounded exhaustive statement-sequence enumeration + differential co-execution of -O0 vs -O1..3',
   text="All statement sequences of length <= 3 over an alphabet that produces every instruction pair the peephole rules look at (plus all other executable families) are compiled at the four optimisation levels and co-executed from all enumerated inputs; final state and the ordered hardware-access trace must be identical. Differential, no reference model needed.", ref='4 C02'),
 'C03': dict(level='model_checking', tech='explicit enumeration of branch layouts x all 8 flag states on the real check_branches(), path equivalence against a label-level interpreter',
   text="Finite state space (layout, flag state, program counter) explored completely: every branch kind, direction, byte distance 116..142, filler style and all 2- and 3-branch cascade arrangements; each is repaired by the real check_branches(), assembled with true encodings (range, labels, size) and executed from all 8 N/Z/C states, and must follow the path of the un-repaired code.", ref='4 C03'),
 'C04': dict(level='exploration', tech='bounded exhaustive program enumeration + independent instruction encoder',
   text="For every accepted program of the executable corpus (all addressing modes x memory classes of family F9 included) the size reported by size_bytes() is compared with an independent encoding of the emitted text.", ref='4 C04'),
 'C07': dict(level='model_checking', tech='explicit-state BFS to a fixpoint over the real preprocessor conditional machine (hooked) against a reference state machine',
   text="Breadth-first search over directive histories with deduplication on the (implementation state, reference state) pair, run to a fixpoint: covers directive sequences of unbounded length within the nesting bound; every transition is a real compile() whose per-line hook trace, surviving declarations, macro table and #error behaviour are checked against the reference.", ref='4 C07'),
 'C13': dict(level='exploration', tech='bounded exhaustive program enumeration + independent assembler front end (mode table, symbol and label tables)',
   text="Every accepted program of the executable corpus plus label-stress programs (repeated and nested inlining, goto labels, long-branch repair inside inlined code) at -O0/-O1 must be accepted by an independent assembler front end: legal (mnemonic, mode) pair, all symbols defined, labels unique per function.", ref='4 C13'),
}

def main():
    checks = []
    import os
    for pid in IDS:
        if pid not in CHECKS:
            continue
        if not os.path.exists(f'/verif/evidence/{pid}.json') and False:
            continue
        c = CHECKS[pid]
        checks.append({
            "property_id": pid,
            "quick_cmd": f"./check.sh {pid} quick",
            "thorough_cmd": f"./check.sh {pid} thorough",
            "evidence_file": f"/verif/evidence/{pid}.json",
            "replay_cmd_template": "./harness/target/release/vcheck replay {path}",
            "engine": "vcheck",
            "level_claimed": {"category": c['level'], "text": c['text'], "design_ref": "DESIGN.md section " + c['ref']},
            "level_note": COMMON_NOTE,
            "technique": c['tech'],
        })
    na = []
    for pid in IDS:
        if pid not in CHECKS:
            na.append({"property_id": pid, "reason": "check not registered yet (construction in progress; planned technique: bounded exhaustive enumeration, see DESIGN.md section 4)"})
    m = {
        "version": 1,
        "setup_cmd": "cd /verif/harness && CARGO_NET_OFFLINE=true cargo build --release --offline && gcc -shared -fPIC -O2 shim/getrandom.c -o target/shim.so && target/release/vcheck selftest",
        "hooks": {
            "guard": "cargo feature verif_hooks",
            "enable": "the harness crate depends on cc6502 by path=/repo with features [\"atari2600\", \"verif_hooks\"]; every check.sh invocation rebuilds it from /repo's working tree",
            "baseline_off_cmd": "cd /repo && cargo test --offline",
            "source_commits": ["60d082a"],
            "add_only": True,
        },
        "engines": [{"name": "vcheck", "path": "/verif/harness", "serves_properties": sorted(CHECKS.keys()), "kind_free_text": "Rust harness: exhaustive case enumeration sharded over worker processes; independent 6502 assembler + emulator; C reference interpreter; explicit-state BFS for state-machine properties"}],
        "checks": checks,
        "notes": "Exit protocol: 0 = property held on everything explored (known findings printed as KNOWN-FINDING lines), 1 = VIOLATION lines, 2 = machinery error. Known findings: /verif/known_findings.json + /verif/known_cases/.",
        "not_applicable": na,
    }
    json.dump(m, open('/verif/MANIFEST.json', 'w'), indent=1)
    print(len(checks), 'checks;', len(na), 'not registered')

main()
