#!/usr/bin/env python3
"""Regenerate /verif/MANIFEST.json from the table below (developer tool)."""
import json

PROPS = [json.loads(l) for l in open('/verif/properties.jsonl')]
IDS = [p['id'] for p in PROPS]

COMMON_NOTE = "Trusted base: the harness's own 6502 emulator and assembler front end (self-tested at every run: ADC/SBC/CMP/shift flags over all operand/carry combinations, opcode table, cycle counts), its C reference interpreter (DESIGN.md 1.4) and the real cc6502 driven through compile() with a builder that mirrors src/tests/build.rs. Coverage is the stated bound; known findings are attributed by exact case identity (known_findings.json)."

CHECKS = {
 'C01': dict(level='exploration', tech='bounded exhaustive program enumeration + co-execution on an emulator against a reference interpreter',
   text="Every program of the enumerated families (expressions to depth 2 with one compound operand, all operator pairs without parentheses, control-flow templates, switch arrangements, calls, statement sequences) is compiled by the real compiler at -O0 and -O1 and executed from every input state of the enumerated domain; final memory/X/Y are compared with a C reference interpreter. Exhaustive within the family bounds, so a wrong branch, lost carry, clobbered register or stale flag in any covered shape is found and the smallest counterexample is reported.", ref='4 C01'),
 'C02': dict(level='exploration', tech='bounded exhaustive statement-sequence enumeration + differential co-execution of -O0 vs -O1..3',
   text="All statement sequences of length <= 3 over an alphabet that produces every instruction pair the peephole rules look at (plus all other executable families) are compiled at the four optimisation levels and co-executed from all enumerated inputs; final state and the ordered hardware-access trace must be identical. Differential, no reference model needed.", ref='4 C02'),
 'C03': dict(level='model_checking', tech='explicit enumeration of branch layouts x all 8 flag states on the real check_branches(), path equivalence against a label-level interpreter',
   text="Finite state space (layout, flag state, program counter) explored completely: every branch kind, direction, byte distance 116..142, filler style, a far branch followed by a branch to another label, and all 2- and 3-branch cascade arrangements; each is repaired by the real check_branches(), assembled with true encodings (range, labels, size) and executed from all 8 N/Z/C states, and must follow the path of the un-repaired code.", ref='4 C03'),
 'C04': dict(level='exploration', tech='bounded exhaustive program enumeration + independent instruction encoder',
   text="For every accepted program of the executable corpus (all addressing modes x memory classes of family F9 included) the size reported by size_bytes() is compared with an independent encoding of the emitted text.", ref='4 C04'),
 'C07': dict(level='model_checking', tech='explicit-state BFS to a fixpoint over the real preprocessor conditional machine (hooked) against a reference state machine',
   text="Breadth-first search over directive histories with deduplication on the (implementation state, reference state) pair, run to a fixpoint: covers directive sequences of unbounded length within the nesting bound; every transition is a real compile() whose per-line hook trace, surviving declarations, macro table and #error behaviour are checked against the reference.", ref='4 C07'),
 'C13': dict(level='exploration', tech='bounded exhaustive program enumeration + independent assembler front end (mode table, symbol and label tables)',
   text="Every accepted program of the executable corpus plus label-stress programs (repeated and nested inlining, goto labels, long-branch repair inside inlined code) at -O0/-O1 must be accepted by an independent assembler front end: legal (mnemonic, mode) pair, all symbols defined, labels unique per function.", ref='4 C13'),
 'C05': dict(level='exploration', tech='exhaustive (program x hash seed x in-process history) enumeration in fresh processes with harness-controlled hash seeds',
   text="Every source of nondeterminism the compiler has (std HashMap seeds, state left behind by an earlier compile() in the same process) is owned by the harness: a getrandom() shim supplies the hash seed, and each corpus program (some with their own -D options, some defining the same macro name with different shapes) is compiled under every seed of the tier and after every other corpus program; the full compilation record must be byte-identical. The check proves on a probe map that the seeds change iteration order.", ref='4 C05'),
 'C06': dict(level='exploration', tech='bounded exhaustive enumeration of (prefix construct x error kind x placement) with a reference line map',
   text="All combinations of 20 line-shifting prefix constructs (directives written with tabs, block comments, continuation lines, multi-line macros, conditionals, includes of C and assembler files with and without final newline, non-ASCII text) x 18 error kinds (preprocessor, syntax, semantic, generator stage in statements and in local initialisers) x 5 placements: the diagnostic must name the file, physical line and include chain computed by an independent line accounting; the preprocessor line map is checked against the reference on every line.", ref='4 C06'),
 'C08': dict(level='exploration', tech='bounded exhaustive enumeration of macro definition sets x use sites against a reference expander',
   text="22 definition sets (object-like chains, bodies that start with a parenthesised identifier, function-like macros with 1-3 parameters, parameters named like macros, nested invocations, redefinition, #undef, -D options) x all use-site fillers: the preprocessed text and the compiled constants must equal a reference expander written for the documented semantics.", ref='4 C08'),
 'C09': dict(level='exploration', tech='bounded exhaustive enumeration of literal atoms x places, decoded bytes compared with a reference decoder',
   text="All atoms (every escape, quotes, comment markers and macro names inside literals, adjacent literals) x 21 places (initialisers, arguments, tables, asm(), around #include, after skipped #if regions that contain literals, three calls in one expression followed by another literal, a literal continued after a backslash-newline, two calls with literals in a local initialiser, a character constant named like a macro): the bytes that reach the variable table / emitted code must be the C decoding of the literal and nothing inside a literal may be treated as a comment, macro or directive.", ref='4 C09'),
 'C10': dict(level='exploration', tech='bounded exhaustive enumeration of constant expressions x positions against a reference evaluator',
   text="All constant expressions to the depth of the tier over the full operator set, in every position where the compiler folds (initialisers, array sizes, aligned(), asm size, statements, conditions): the folded value must equal a reference evaluator with C semantics, be the same in every position and the same as the run-time evaluation on the emulator; expressions outside the representable range must be rejected.", ref='4 C10'),
 'C11': dict(level='exploration', tech='bounded exhaustive enumeration of layout decorations x token gaps, record compared with the undecorated program',
   text="Every token gap of every corpus program x 23 decorations (spaces, tabs, newlines, comments of both kinds incl. two adjacent comments and // comments that start with * or */, continuation lines, CRLF, missing final newline), every single blank replaced by a block comment, and the non-semantic options: the compilation record (variables, functions, emitted text) must be identical to the undecorated compilation.", ref='4 C11'),
 'C12': dict(level='exploration', tech='bounded exhaustive enumeration of call graphs (subsets of a function library x bodies) against a reference reachability computation',
   text="All enumerated call graphs over a 29-function library (direct, nested, inline, interrupt roots, recursion-free cycles through prototypes, calls in every expression position): the in-use set and the emitted functions must equal the reachability closure computed on the harness AST, and the program must execute identically with unreachable functions removed.", ref='4 C12'),
 'C14': dict(level='exploration', tech='bounded exhaustive enumeration of inline subsets, co-execution against the non-inlined program',
   text="For every body of the library and every subset of its functions marked inline the program must leave the same final state as with no function inlined, at -O0 and -O1, from every enumerated input; labels of repeated expansions must stay unique.", ref='4 C14'),
 'C15': dict(level='exploration', tech='bounded exhaustive enumeration of (program x rewrite site), differential co-execution of the two spellings',
   text="Every program of the executable corpus x every site where one of 7 meaning-preserving rewrites applies (+ template pairs for switch/if-chain, register/constant index, call/body): both spellings are compiled and executed from every enumerated input and must leave the same final state. Differential: no expected value is written by hand.", ref='4 C15'),
 'C16': dict(level='fault_enumeration', tech='exhaustive single-fault enumeration (token deletion, replacement, duplication, truncation at every position) over a corpus, in isolated processes',
   text="Every single-token deletion, duplication, swap and replacement (40 replacement tokens) and every truncation point of 33 corpus programs, layout variants of each program (last lines joined, no final newline) under the listing option, plus ~400 directed hostile inputs each under two option sets, plus every valid program of the shared executable corpus (compile only): compile() must return Ok or a located error; a panic, abort, hang (watchdog) or memory blow-up (address-space limit) is a violation, attributed to the innermost compiler function.", ref='4 C16'),
 'C17': dict(level='exploration', tech='bounded exhaustive enumeration of (statement x split-port placement), execution on an emulator with a split-port RAM fault model',
   text="All 82 statements (thorough: pairs) x 15 subsets of variables placed in split-port RAM x 3 cartridge schemes at -O0/-O1 are executed on the emulator whose RAM model faults on a read of a write port, a write to a read port and any read-modify-write; results are compared with the same program using ordinary variables.", ref='4 C17'),
 'C18': dict(level='exploration', tech='bounded exhaustive enumeration of csleep counts x surrounding code, cycle-exact measurement on the emulator',
   text="Every csleep(n) for n in the accepted range, alone, in adjacent pairs/triples and between every pair of surrounding statements, at every optimisation level: the cycles measured between two marker strobes on the cycle-exact emulator must equal n plus the surroundings' own cycles, registers and flags-dependent behaviour must be unchanged; volatile accesses (strobe, load, store, asm) must appear in the access trace in source order and number at every level, also when they sit in inlined functions, and at the address the source names (a block of registers reached with subscripts that have side effects or need a register); regions made of explicit statements only must take the same number of cycles at every level.", ref='4 C18'),
}

def main():
    checks = []
    import os
    for pid in IDS:
        if pid not in CHECKS:
            continue
        if not os.path.exists(f'/verif/evidence/{pid}.json') and False:
            continue
        c = CHECKS[pid]
        checks.append({
            "property_id": pid,
            "quick_cmd": f"./check.sh {pid} quick",
            "thorough_cmd": f"./check.sh {pid} thorough",
            "evidence_file": f"/verif/evidence/{pid}.json",
            "replay_cmd_template": "./harness/target/release/vcheck replay {path}",
            "engine": "vcheck",
            "level_claimed": {"category": c['level'], "text": c['text'], "design_ref": "DESIGN.md section " + c['ref']},
            "level_note": COMMON_NOTE,
            "technique": c['tech'],
        })
    na = []
    for pid in IDS:
        if pid not in CHECKS:
            na.append({"property_id": pid, "reason": "check not registered yet (construction in progress; planned technique: bounded exhaustive enumeration, see DESIGN.md section 4)"})
    m = {
        "version": 1,
        "setup_cmd": "cd /verif/harness && CARGO_NET_OFFLINE=true cargo build --release --offline && gcc -shared -fPIC -O2 shim/getrandom.c -o target/shim.so && target/release/vcheck selftest",
        "hooks": {
            "guard": "cargo feature verif_hooks",
            "enable": "the harness crate depends on cc6502 by path=/repo with features [\"atari2600\", \"verif_hooks\"]; every check.sh invocation rebuilds it from /repo's working tree",
            "baseline_off_cmd": "cd /repo && cargo test --offline",
            "source_commits": ["60d082a"],
            "add_only": True,
        },
        "engines": [{"name": "vcheck", "path": "/verif/harness", "serves_properties": sorted(CHECKS.keys()), "kind_free_text": "Rust harness: exhaustive case enumeration sharded over worker processes; independent 6502 assembler + emulator; C reference interpreter; explicit-state BFS for state-machine properties"}],
        "checks": checks,
        "notes": "Exit protocol: 0 = property held on everything explored (known findings printed as KNOWN-FINDING lines), 1 = VIOLATION lines, 2 = machinery error. Known findings: /verif/known_findings.json + /verif/known_cases/.",
        "not_applicable": na,
    }
    json.dump(m, open('/verif/MANIFEST.json', 'w'), indent=1)
    print(len(checks), 'checks;', len(na), 'not registered')

main()
