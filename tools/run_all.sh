#!/bin/bash
cd /verif
for t in quick thorough; do
for i in $(seq -w 1 18); do
  s=$(date +%s)
  ./check.sh C$i $t > scratch/out_C${i}_$t.txt 2>&1
  rc=$?
  e=$(date +%s)
  echo "C$i $t exit=$rc total=$((e-s))s $(grep -c '^VIOLATION' scratch/out_C${i}_$t.txt) violations; $(grep -E "^C$i $t:" scratch/out_C${i}_$t.txt | cut -c1-160)"
  cp evidence/C$i.json scratch/evidence_C${i}_$t.json
done
done
