#!/usr/bin/env python3
"""Developer tool: print the tables of DESIGN.md that are derived from data:
  --matrix   : section 9, which checks report which seeded change (from seeded/*/meta.json)
  --numbers  : cases / wall seconds per check and tier (from evidence written by the last runs of both tiers;
               run `./check.sh <ID> quick` and `thorough` first, numbers are taken from scratch/last_<ID>_<tier>.json
               copies made by this tool's --snapshot mode)
"""
import json, os, re, sys, glob

ROOT = '/verif'

def first_pass():
    """what the checks said when the seed was first tried (before the checks were strengthened)"""
    import ast
    out = {}
    # the first matrix in which a seed appears (round 1: k = 1, 2; round 2: k = 3..5; round 3: k = 6..8; round 4/5: k = 9..11; round 6: k = 12, 13)
    for fn, ks in [('matrix_11_round6_new_seeds_first_checks.log', ['12', '13']), ('matrix_6_round4_new_seeds_first_checks.log', ['9', '10', '11']), ('matrix_8_round5_new_seeds_first_checks.log', ['9', '10', '11']), ('matrix_4_all_142_seeds_after_round2_strengthening.log', ['6', '7', '8']), ('matrix_2_all_seeds_after_round1_strengthening.log', ['3', '4', '5']), ('matrix_1_round1_seeds_first_checks.log', ['1', '2'])]:
        pth = ROOT + '/seeded/history/' + fn
        if not os.path.exists(pth):
            continue
        for l in open(pth):
            m = re.match(r"(C\d\d-(\d+)) detected by (\[.*?\])", l)
            if m and m.group(2) in ks:
                det = ast.literal_eval(m.group(3))
                if fn.startswith('matrix_6'):
                    # during that run C15 quick was failing on the unmodified tree too (a false alarm of a
                    # new template, DESIGN section 6): its reports count only for C15's own seeds
                    det = [x for x in det if not (x == 'C15 quick' and not m.group(1).startswith('C15'))]
                out[m.group(1)] = det
    return out

def first_sentence(summ):
    return summ.split('. ')[0][:140].replace('|', '/').replace('`', "'") + ' …'

def matrix():
    first = first_pass()
    rows = []
    for d in sorted(glob.glob(ROOT + '/seeded/C??-*'), key=lambda d: (os.path.basename(d).split('-')[0], int(os.path.basename(d).split('-')[1]))):
        name = os.path.basename(d)
        agent = json.load(open(d + '/agent_meta.json'))
        meta = json.load(open(d + '/meta.json')) if os.path.exists(d + '/meta.json') else {}
        val = meta.get('validation', {}).get('status', '?')
        det = meta.get('detected_by', [])
        prop = name.split('-')[0]
        own = [x for x in det if x.startswith(prop + ' ')]
        others = [x for x in det if not x.startswith(prop + ' ')]
        summ = agent.get('summary', '')
        summ = re.sub(r'\s+', ' ', summ)
        files = ', '.join(os.path.basename(f) for f in agent.get('files_changed', []))
        fp = first.get(name)
        if fp is None:
            fps = '?'
        else:
            o2 = [x for x in fp if x.startswith(prop + ' ')]
            fps = ', '.join(o2) if o2 else ('only ' + ', '.join(fp) if fp else 'missed')
        first = first  # keep name
        rows.append((name, files, first_sentence(summ), val, ', '.join(own) if own else '—', ', '.join(others) if others else '', fps))
    print('| seed | file | change (start of the author\'s summary) | when first tried | now |')
    print('|---|---|---|---|---|')
    for r in rows:
        print(f'| {r[0]} | {r[1]} | {r[2]} | {r[6]} | {r[4]}{(" (+ " + r[5] + ")") if r[5] else ""} |')
    n = len(rows)
    own = sum(1 for r in rows if r[4] != '—')
    anyc = sum(1 for r in rows if r[4] != '—' or r[5])
    print()
    print(f'{n} seeded changes, all valid at the current HEAD; reported by the check of their own property: {own}; by at least one check: {anyc}.')

if '--matrix' in sys.argv:
    matrix()

def numbers():
    """cases and wall seconds per check and tier, from the copies of the evidence files that
    tools/run_all.sh keeps after each run (scratch/evidence_<ID>_<tier>.json)"""
    for i in range(1, 19):
        p = 'C%02d' % i
        row = []
        for t in ('quick', 'thorough'):
            f = f'{ROOT}/scratch/evidence_{p}_{t}.json'
            if not os.path.exists(f):
                row.append(('?', '?')); continue
            d = json.load(open(f))
            row.append((d['coverage'].get('cases_enumerated'), round(d.get('wall_s', 0))))
        print(f'{p}: cases {row[0][0]:,} -> {row[1][0]:,} | wall {row[0][1]} -> {row[1][1]}'.replace(',', ' '))

if '--numbers' in sys.argv:
    numbers()
