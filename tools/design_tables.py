#!/usr/bin/env python3
"""Developer tool: print the tables of DESIGN.md that are derived from data:
  --matrix   : section 9, which checks report which seeded change (from seeded/*/meta.json)
  --numbers  : cases / wall seconds per check and tier (from evidence written by the last runs of both tiers;
               run `./check.sh <ID> quick` and `thorough` first, numbers are taken from scratch/last_<ID>_<tier>.json
               copies made by this tool's --snapshot mode)
"""
import json, os, re, sys, glob

ROOT = '/verif'

def matrix():
    rows = []
    for d in sorted(glob.glob(ROOT + '/seeded/C??-?')):
        name = os.path.basename(d)
        agent = json.load(open(d + '/agent_meta.json'))
        meta = json.load(open(d + '/meta.json')) if os.path.exists(d + '/meta.json') else {}
        val = meta.get('validation', {}).get('status', '?')
        det = meta.get('detected_by', [])
        prop = name.split('-')[0]
        own = [x for x in det if x.startswith(prop + ' ')]
        others = [x for x in det if not x.startswith(prop + ' ')]
        summ = agent.get('summary', '')
        summ = re.sub(r'\s+', ' ', summ)
        first = summ.split('. ')[0][:150]
        files = ', '.join(os.path.basename(f) for f in agent.get('files_changed', []))
        rows.append((name, files, first, val, ', '.join(own) if own else '—', ', '.join(others) if others else ''))
    print('| seed | file | change (first sentence of the author\'s summary) | own check | other checks that also report it |')
    print('|---|---|---|---|---|')
    for r in rows:
        print(f'| {r[0]} | {r[1]} | {r[2]} | {r[4]} | {r[5]} |')
    n = len(rows)
    own = sum(1 for r in rows if r[4] != '—')
    anyc = sum(1 for r in rows if r[4] != '—' or r[5])
    print()
    print(f'{n} seeded changes, all valid at the current HEAD; reported by the check of their own property: {own}; by at least one check: {anyc}.')

if '--matrix' in sys.argv:
    matrix()
