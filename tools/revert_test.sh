#!/bin/bash
# usage: revert_test.sh <commit> <check>...   (temporarily reverts a fix in /repo's working tree, runs quick checks, restores)
c=$1; shift
cd /repo && git revert -n $c >/dev/null 2>&1 || { echo "revert failed $c"; git revert --abort 2>/dev/null; git checkout -- . ; exit 1; }
git reset -q
cd /verif/harness && cargo build --release --offline 2>&1 | tail -1
cd /verif
for p in "$@"; do ./harness/target/release/vcheck check $p quick > scratch/rv_$p.txt 2>&1; echo "revert $c: $p exit=$? $(grep -c '^VIOLATION' scratch/rv_$p.txt) viol"; done
cd /repo && git checkout -- . && git status --short | grep -v target; cd /verif/harness && cargo build --release --offline 2>&1 | tail -1
