#!/usr/bin/env python3
"""Developer tool (never run by a check): run the given checks in both tiers, collect the
failing case keys and write them, grouped by root-cause class, to known_cases/.
Refuses to write a class that is not declared in known_findings.json."""
import json, os, subprocess, sys, collections

ROOT = '/verif'
VCHECK = os.environ.get('VCHECK_BIN', ROOT + '/harness/target/release/vcheck')

TAG_CLASSIFIED = {'C01', 'C03', 'C14', 'C15', 'C17'}

def cls_of(row, prop):
    head = row['detail'].split('\n')[0]
    if prop in TAG_CLASSIFIED and 'tags=' in head and row['kind'] in ('semantic', 'spellings-differ'):
        t = head.split('tags=')[1].split(',')[0].strip()
        return t if t else 'untagged'
    return row['kind']

def main():
    props = sys.argv[1:]
    tiers = ['quick', 'thorough']
    if '--quick-only' in props:
        props.remove('--quick-only'); tiers = ['quick']
    kf = json.load(open(ROOT + '/known_findings.json'))
    declared = {}
    for f in kf['findings']:
        if f.get('keys_file'):
            declared[f['keys_file']] = f
    for prop in props:
        groups = collections.defaultdict(set)
        for tier in tiers:
            dump = f'{ROOT}/scratch/harvest_{prop}_{tier}.jsonl'
            env = dict(os.environ, VCHECK_DUMP_FAILS=dump)
            r = subprocess.run([VCHECK, 'check', prop, tier], env=env, capture_output=True, text=True)
            print(r.stdout.strip().split('\n')[-1])
            if r.returncode == 2:
                print('machinery error; not harvesting', prop, tier); sys.exit(2)
            for l in open(dump):
                row = json.loads(l)
                groups[cls_of(row, prop)].add(row['key'])
        for c, keys in sorted(groups.items()):
            fn = f'known_cases/{prop}.{c}.txt'
            if fn not in declared:
                print(f'UNDECLARED class {c} for {prop}: {len(keys)} failing cases - not written; add a finding with keys_file={fn} after examining them')
                continue
            with open(f'{ROOT}/{fn}', 'w') as f:
                for k in sorted(keys):
                    f.write(k + '\n')
            print(f'{fn}: {len(keys)} keys')
        # stale files
        for fn, f in declared.items():
            if fn.startswith(f'known_cases/{prop}.') and fn.split('.')[1] not in groups and os.path.exists(f'{ROOT}/{fn}'):
                print(f'note: {fn} has no failing case any more (finding {f["id"]} may be fixed)')

main()
