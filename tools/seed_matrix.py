#!/usr/bin/env python3
"""Developer tool: apply each seeded change under /verif/seeded/<id>-<k>/patch.diff to /repo,
rebuild the harness, run checks, undo the change (git -C /repo checkout -- .), and record in
seeded/<id>-<k>/meta.json which checks reported a VIOLATION.
Usage: seed_matrix.py [--all-quick] [--thorough-if-missed] [seed dirs...]"""
import json, os, subprocess, sys, re, time

ROOT = '/verif'
args = sys.argv[1:]
all_quick = '--all-quick' in args
thorough_if_missed = '--thorough-if-missed' in args
args = [a for a in args if not a.startswith('--')]
seeds = args or sorted(d for d in os.listdir(ROOT + '/seeded') if re.fullmatch(r'C\d\d-\d+', d))
ALL = ['C%02d' % i for i in range(1, 19)]

def sh(cmd, cwd=ROOT):
    return subprocess.run(cmd, shell=True, cwd=cwd, capture_output=True, text=True)

def dirty():
    return sh('git -C /repo status --porcelain --untracked-files=no').stdout.strip() != ''

def run_check(prop, tier):
    t0 = time.time()
    r = sh(f'./harness/target/release/vcheck check {prop} {tier}')
    viol = [l for l in r.stdout.split('\n') if l.startswith('VIOLATION')]
    summ = [l for l in r.stdout.split('\n') if l.startswith(f'{prop} {tier}:')]
    first = ''
    if viol:
        m = re.search(r'replay=(\S+)', viol[0])
        if m and os.path.exists(m.group(1)):
            try:
                first = json.load(open(m.group(1))).get('detail', '')[:700]
            except Exception:
                pass
    return {'exit': r.returncode, 'violations': len(viol), 'summary': summ[-1] if summ else r.stdout[-300:], 'wall_s': round(time.time() - t0, 1), 'first_violation': first}

if dirty():
    print('/repo has uncommitted changes; refusing'); sys.exit(2)
for s in seeds:
    d = f'{ROOT}/seeded/{s}'
    prop = s.split('-')[0]
    meta_p = d + '/meta.json'
    meta = json.load(open(meta_p)) if os.path.exists(meta_p) else {}
    if sh(f'git -C /repo apply {d}/patch.diff').returncode != 0:
        print(s, 'patch does not apply'); continue
    try:
        b = sh('cargo build --release --offline 2>&1 | tail -3', cwd=ROOT + '/harness')
        if 'Finished' not in b.stdout:
            print(s, 'build failed', b.stdout); continue
        results = {}
        results[f'{prop} quick'] = run_check(prop, 'quick')
        detected = results[f'{prop} quick']['exit'] == 1
        if not detected and thorough_if_missed:
            results[f'{prop} thorough'] = run_check(prop, 'thorough')
            detected = results[f'{prop} thorough']['exit'] == 1
        if all_quick or not detected:
            for p in ALL:
                if p != prop:
                    results[f'{p} quick'] = run_check(p, 'quick')
        meta['checks_run'] = results
        meta['detected_by'] = sorted(k for k, v in results.items() if v['exit'] == 1)
        meta['machinery_errors'] = sorted(k for k, v in results.items() if v['exit'] not in (0, 1))
        print(s, 'detected by', meta['detected_by'], 'machinery errors', meta['machinery_errors'], flush=True)
    finally:
        sh('git -C /repo checkout -- .')
    json.dump(meta, open(meta_p, 'w'), indent=1)
sh('cargo build --release --offline', cwd=ROOT + '/harness')
